#![no_main]
use libfuzzer_sys::fuzz_target;
mod common;

fuzz_target!(|data: &[u8]| {
    common::known();
    let o = vlib::props::c06::check_parse_bytes(data);
    common::judge(&o);
});
