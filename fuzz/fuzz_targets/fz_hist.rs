#![no_main]
// Coverage-guided search over the generated histories of the session-level checks: the bytes drive the check's own
// proptest strategy (pass-through RNG), the oracle is the check's own. FZ_PROP selects the property (default C12).
use libfuzzer_sys::fuzz_target;
mod common;

fn prop() -> &'static str {
    use std::sync::OnceLock;
    static P: OnceLock<String> = OnceLock::new();
    P.get_or_init(|| {
        let p = std::env::var("FZ_PROP").unwrap_or_else(|_| "C12".to_string());
        let dir = std::path::Path::new("/verif/work").join(format!("fuzz-{}-{}", p, std::process::id()));
        vlib::engine::set_worker_dir(&dir);
        p
    })
}

fuzz_target!(|data: &[u8]| {
    common::known();
    let p = prop();
    if let Some((case, o)) = vlib::fuzzapi::run(p, data) {
        common::judge_case(p, vlib::fuzzapi::sub_of(p), &case, &o);
    }
});
