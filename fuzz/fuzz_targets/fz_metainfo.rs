#![no_main]
use libfuzzer_sys::fuzz_target;
mod common;

fuzz_target!(|data: &[u8]| {
    common::known();
    // totality + accessor safety (C17) and info-hash span (C05)
    let mut o = vlib::engine::Outcome::new();
    vlib::props::c17::check_bytes_total(data, &mut o);
    common::judge(&o);
    let o2 = vlib::props::c05::check_raw(&vlib::props::c05::RawCase { bytes: data.to_vec() });
    common::judge(&o2);
});
