// shared by the fuzz targets: run an oracle, tolerate known-finding signatures, panic on anything else
use vlib::engine::Outcome;

pub fn known() -> &'static std::collections::HashSet<String> {
    use std::sync::OnceLock;
    static K: OnceLock<std::collections::HashSet<String>> = OnceLock::new();
    K.get_or_init(|| {
        vlib::engine::install_panic_hook_quiet();
        let mut s = std::collections::HashSet::new();
        for k in vlib::engine::load_known() {
            if k.status == "known" {
                s.insert(k.signature);
            }
        }
        s
    })
}

pub fn judge(o: &Outcome) {
    let k = known();
    for f in &o.fails {
        if !k.contains(&f.signature) {
            // restore default hook behaviour for the report
            eprintln!("ORACLE-VIOLATION [{}] {}", f.signature, f.detail);
            std::process::abort();
        }
    }
}
