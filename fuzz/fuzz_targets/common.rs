// shared by the fuzz targets: run an oracle, tolerate known-finding signatures, panic on anything else
use vlib::engine::Outcome;

pub fn known() -> &'static std::collections::HashSet<String> {
    use std::sync::OnceLock;
    static K: OnceLock<std::collections::HashSet<String>> = OnceLock::new();
    K.get_or_init(|| {
        vlib::engine::install_panic_hook_quiet();
        let mut s = std::collections::HashSet::new();
        for k in vlib::engine::load_known() {
            if k.status == "known" {
                s.insert(k.signature);
            }
        }
        s
    })
}

pub fn judge(o: &Outcome) {
    let k = known();
    for f in &o.fails {
        if !k.contains(&f.signature) {
            // restore default hook behaviour for the report
            eprintln!("ORACLE-VIOLATION [{}] {}", f.signature, f.detail);
            std::process::abort();
        }
    }
}

/// Like `judge`, but a violation is first written as an ordinary replay file holding the decoded case.
#[allow(dead_code)]
pub fn judge_case(prop: &str, sub: &str, case: &serde_json::Value, o: &Outcome) {
    let k = known();
    for f in &o.fails {
        if !k.contains(&f.signature) {
            let sig: String = f.signature.chars().map(|c| if c.is_ascii_alphanumeric() || c == '-' { c } else { '_' }).take(60).collect();
            let path = format!("/verif/replays/{}-fuzz-{}.json", prop, sig);
            let _ = std::fs::create_dir_all("/verif/replays");
            let doc = serde_json::json!({"property": prop, "sub": sub, "signature": f.signature, "detail": f.detail, "case": case});
            let _ = std::fs::write(&path, serde_json::to_vec(&doc).unwrap_or_default());
            eprintln!("ORACLE-VIOLATION [{}] {}", f.signature, f.detail);
            eprintln!("REPLAY-FILE {}", path);
            std::process::abort();
        }
    }
}
