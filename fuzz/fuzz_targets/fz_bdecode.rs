#![no_main]
use libfuzzer_sys::fuzz_target;
mod common;

fuzz_target!(|data: &[u8]| {
    common::known();
    let mut o = vlib::engine::Outcome::new();
    vlib::props::c16::check_bytes(data, &mut o);
    common::judge(&o);
});
