use proptest::strategy::{Strategy, ValueTree};
use proptest::test_runner::{Config, RngAlgorithm, TestRng, TestRunner};


#[test]
fn passthrough_probe() {
    let mut x: u64 = 0x9E37_79B9_7F4A_7C15;
    let mut v = Vec::new();
    while v.len() < 4096 {
        x ^= x << 13;
        x ^= x >> 7;
        x ^= x << 17;
        v.extend_from_slice(&x.to_le_bytes());
    }
    let rng = TestRng::from_seed(RngAlgorithm::PassThrough, &v);
    let mut runner = TestRunner::new_with_rng(Config::default(), rng);
    let s = (1usize..=64).boxed();
    println!("sample: {:?}", s.new_tree(&mut runner).unwrap().current());
    let s = proptest::collection::vec(0u8..7, 0..80).boxed();
    println!("sample: {:?}", s.new_tree(&mut runner).unwrap().current());
}

#[test]
fn c12_strategy_probe() {
    let mut x: u64 = 0x9E37_79B9_7F4A_7C15;
    let mut v = Vec::new();
    while v.len() < (1 << 18) {
        x ^= x << 13;
        x ^= x >> 7;
        x ^= x << 17;
        v.extend_from_slice(&x.to_le_bytes());
    }
    let rng = TestRng::from_seed(RngAlgorithm::PassThrough, &v);
    let mut runner = TestRunner::new_with_rng(Config::default(), rng);
    let s = vlib::props::c12::histories_strategy();
    println!("built strategy");
    let c = s.new_tree(&mut runner).unwrap().current();
    println!("case: pieces {} ops {}", c.pieces, c.ops.len());
}
