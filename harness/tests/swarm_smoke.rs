use vlib::engine::*;
use vlib::refmodel::geometry::*;
use vlib::refmodel::wire::*;
use vlib::swarm::*;

#[test]
fn smoke() {
    install_panic_hook();
    let dir = std::path::PathBuf::from("/verif/work/smoke/0");
    let _ = std::fs::remove_dir_all(&dir);
    set_worker_dir(&dir);
    fresh_cwd();
    let t = Torrent::new(Geometry::single(20000, 50000, 1));
    let ih = t.info_hash();
    let t2 = t.clone();
    let r = run(1, &t, |w| {
        Box::pin(async move {
            let c = w.connect(None);
            w.send_frame(c, &RFrame::handshake(ih, [b'p'; 20]));
            w.send_frame(c, &RFrame::Bitfield(bits_to_bytes(&[true, true, true])));
            w.settle().await;
            let f1 = w.take_frames(c);
            println!("t={:?} after hs+bf: {:?}", w.now(), f1.iter().map(|f| f.short()).collect::<Vec<_>>());
            w.send_frame(c, &RFrame::Unchoke);
            w.settle().await;
            let mut view = PeerView::new();
            let f2 = w.take_frames(c);
            println!("after unchoke: {:?}", f2.iter().map(|f| f.short()).collect::<Vec<_>>());
            view.absorb(&f2);
            // answer everything until nothing is requested
            let mut guard = 0;
            while let Some((i, b, l)) = view.outstanding.pop_front() {
                let data = t2.piece(i as usize)[b as usize..(b + l) as usize].to_vec();
                w.send_frame(c, &RFrame::Piece(i, b, data));
                w.settle().await;
                let f = w.take_frames(c);
                println!("t={:?} after piece({},{}): {:?}", w.now(), i, b, f.iter().map(|f| f.short()).collect::<Vec<_>>());
                view.absorb(&f);
                guard += 1;
                assert!(guard < 50);
            }
            println!("snapshot {:?}", w.snapshot().statuses);
            println!("files {:?}", piece_files().iter().map(|(n, d)| (n.clone(), d.len())).collect::<Vec<_>>());
            println!("cmds {:?}", w.cmds.iter().map(|c| c.kind).collect::<Vec<_>>());
            w.advance_by(std::time::Duration::from_secs(400)).await;
            let fr = w.take_frames(c);
            println!("t={:?} alive={} reason={:?} frames={:?}", w.now(), w.handler_alive(c), w.conns[c].kill_reason, fr.iter().map(|f| f.short()).collect::<Vec<_>>());
            w.fatal()
        })
    });
    println!("{:?}", r);
    assert!(matches!(r, Ok(None)));
}
