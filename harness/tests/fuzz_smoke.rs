use vlib::engine::*;

#[test]
fn every_fuzz_target_decodes_and_runs() {
    install_panic_hook();
    let dir = std::path::PathBuf::from("/verif/work/fuzz-smoke/0");
    let _ = std::fs::remove_dir_all(&dir);
    set_worker_dir(&dir);
    for (p, _) in vlib::fuzzapi::TARGETS {
        for input in [vec![], vec![0u8; 64], vec![0xffu8; 64], (0..200u32).map(|i| (i * 37 % 251) as u8).collect::<Vec<u8>>()] {
            let t = std::time::Instant::now();
            let r = vlib::fuzzapi::run(p, &input);
            println!("{} len={} -> decoded={} fails={:?} in {:?}", p, input.len(), r.is_some(), r.as_ref().map(|x| x.1.fails.len()), t.elapsed());
        }
    }
}
