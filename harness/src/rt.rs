//! Small helpers around tokio runtimes used by the non-swarm checks.

use std::future::Future;

thread_local! {
    static RT: tokio::runtime::Runtime = tokio::runtime::Builder::new_current_thread()
        .enable_all()
        .build()
        .expect("runtime");
}

/// Run a future on this thread's (real-time) current-thread runtime.
pub fn block_on<F: Future>(f: F) -> F::Output {
    RT.with(|rt| rt.block_on(f))
}

/// Run the real Extractor for a Metainfo in the current directory; returns Ok(()) for Done, Err(text) for Fail.
pub fn run_extractor(m: &rdest::Metainfo) -> Result<(), String> {
    use rdest::verif::{Extractor, ExtractorCmd};
    block_on(async {
        let (tx, mut rx) = tokio::sync::mpsc::channel(4);
        let mut ex = Extractor::new(m.clone(), tx);
        ex.run().await;
        match rx.recv().await {
            Some(ExtractorCmd::Done) => Ok(()),
            Some(ExtractorCmd::Fail(e)) => Err(e),
            None => Err("extractor sent nothing".to_string()),
        }
    })
}

/// All regular files below `root` (relative paths, sorted) with their sizes; directories listed with size None.
pub fn list_tree(root: &std::path::Path) -> Vec<(String, Option<u64>)> {
    fn walk(base: &std::path::Path, dir: &std::path::Path, out: &mut Vec<(String, Option<u64>)>) {
        if let Ok(rd) = std::fs::read_dir(dir) {
            for e in rd.flatten() {
                let p = e.path();
                let rel = p.strip_prefix(base).unwrap_or(&p).to_string_lossy().to_string();
                match e.file_type() {
                    Ok(t) if t.is_dir() => {
                        out.push((rel, None));
                        walk(base, &p, out);
                    }
                    Ok(_) => {
                        let len = std::fs::symlink_metadata(&p).map(|m| m.len()).unwrap_or(0);
                        out.push((rel, Some(len)));
                    }
                    Err(_) => {}
                }
            }
        }
    }
    let mut out = vec![];
    walk(root, root, &mut out);
    out.sort();
    out
}
