//! Conversions/comparisons between the reference model's values and rdest's.

use crate::refmodel::bencode::RVal;
use rdest::verif::BEncoder;
use rdest::BValue;
use std::collections::HashMap;

/// RVal (unique keys) -> BValue
pub fn to_bvalue(v: &RVal) -> BValue {
    match v {
        RVal::Int(i) => BValue::Int(*i),
        RVal::Str(s) => BValue::ByteStr(s.clone()),
        RVal::List(l) => BValue::List(l.iter().map(to_bvalue).collect()),
        RVal::Dict(d) => {
            let mut m = HashMap::new();
            for (k, x) in d {
                m.insert(k.clone(), to_bvalue(x));
            }
            BValue::Dict(m)
        }
    }
}

/// Does rdest's decoded value agree with the reference value? For duplicate keys any of the given values may win.
pub fn matches(b: &BValue, r: &RVal) -> bool {
    match (b, r) {
        (BValue::Int(a), RVal::Int(c)) => a == c,
        (BValue::ByteStr(a), RVal::Str(c)) => a == c,
        (BValue::List(a), RVal::List(c)) => a.len() == c.len() && a.iter().zip(c.iter()).all(|(x, y)| matches(x, y)),
        (BValue::Dict(a), RVal::Dict(c)) => {
            // every reference key present; every rdest key present in the reference with one of its values
            for (k, _) in c {
                if !a.contains_key(k) {
                    return false;
                }
            }
            for (k, bv) in a {
                if !c.iter().any(|(ck, cv)| ck == k && matches(bv, cv)) {
                    return false;
                }
            }
            true
        }
        _ => false,
    }
}

pub fn matches_all(b: &[BValue], r: &[RVal]) -> bool {
    b.len() == r.len() && b.iter().zip(r.iter()).all(|(x, y)| matches(x, y))
}

/// Encode one top-level value with rdest's encoder.
pub fn rdest_encode_into(enc: &mut BEncoder, v: &BValue) {
    match v {
        BValue::Int(i) => {
            enc.add_int(*i);
        }
        BValue::ByteStr(s) => {
            enc.add_byte_str(s.as_slice());
        }
        BValue::List(l) => {
            enc.add_list(l);
        }
        BValue::Dict(d) => {
            enc.add_dict(d);
        }
    }
}

pub fn rdest_encode(vals: &[BValue]) -> Vec<u8> {
    let mut enc = BEncoder::new();
    for v in vals {
        rdest_encode_into(&mut enc, v);
    }
    enc.encode().clone()
}

pub fn show_bytes(b: &[u8]) -> String {
    let mut s = String::new();
    for &c in b.iter().take(400) {
        if (0x20..0x7f).contains(&c) && c != b'\\' {
            s.push(c as char);
        } else {
            s.push_str(&format!("\\x{:02x}", c));
        }
    }
    if b.len() > 400 {
        s.push_str(&format!("…(+{} bytes)", b.len() - 400));
    }
    s
}

use crate::refmodel::wire::{self, RFrame};
use rdest::verif::{Frame, Serializer};

/// rdest Frame -> reference frame, through accessors where the message has them, otherwise by
/// re-serialising and reading the bytes with the reference decoder.
pub fn frame_to_r(f: &Frame) -> RFrame {
    match f {
        Frame::KeepAlive(_) => RFrame::KeepAlive,
        Frame::Choke(_) => RFrame::Choke,
        Frame::Unchoke(_) => RFrame::Unchoke,
        Frame::Interested(_) => RFrame::Interested,
        Frame::NotInterested(_) => RFrame::NotInterested,
        Frame::Have(h) => RFrame::Have(h.piece_index() as u32),
        Frame::Request(r) => RFrame::Request(r.piece_index() as u32, r.block_begin() as u32, r.block_length() as u32),
        Frame::Piece(p) => RFrame::Piece(p.piece_index() as u32, p.block_begin() as u32, p.block().clone()),
        Frame::Bitfield(b) => reparse(&b.data()),
        Frame::Cancel(c) => reparse(&c.data()),
        Frame::Handshake(h) => reparse(&h.data()),
    }
}

fn reparse(data: &[u8]) -> RFrame {
    let d = wire::decode(data);
    match d.frames.first() {
        Some((f, _)) => f.clone(),
        None => RFrame::Unknown(255, data.to_vec()),
    }
}
