use vlib::engine::{parent_main, replay_main, worker_main, Tier};
use vlib::props;

fn tier_of(s: &str) -> Option<Tier> {
    match s {
        "quick" => Some(Tier::Quick),
        "thorough" => Some(Tier::Thorough),
        _ => None,
    }
}

fn usage() -> ! {
    eprintln!("usage: vcheck <ID> quick|thorough | vcheck <ID> --replay <file> | vcheck --list");
    std::process::exit(2)
}

fn main() {
    let args: Vec<String> = std::env::args().skip(1).collect();
    if args.is_empty() {
        usage();
    }
    if args[0] == "--list" {
        for d in props::all() {
            println!("{}", d.id);
        }
        return;
    }
    if args[0] == "--probe-decode" {
        if args.len() != 4 {
            usage();
        }
        let depth: u32 = args[1].parse().unwrap_or_else(|_| usage());
        let kind: u8 = args[2].parse().unwrap_or_else(|_| usage());
        std::process::exit(props::c16::probe_decode_main(depth, kind, args[3] == "1"));
    }
    if args[0] == "--e2e-child" {
        if args.len() != 3 {
            usage();
        }
        std::process::exit(vlib::e2e::child_main(&args[1], &args[2]));
    }
    if args[0] == "--worker" {
        // --worker ID tier sub idx n
        if args.len() != 6 {
            usage();
        }
        let def = props::by_id(&args[1]).unwrap_or_else(|| usage());
        let tier = tier_of(&args[2]).unwrap_or_else(|| usage());
        let idx: usize = args[4].parse().unwrap_or_else(|_| usage());
        let n: usize = args[5].parse().unwrap_or_else(|_| usage());
        std::process::exit(worker_main(&def, tier, &args[3], idx, n));
    }
    let def = match props::by_id(&args[0]) {
        Some(d) => d,
        None => {
            eprintln!("unknown property {}", args[0]);
            std::process::exit(2)
        }
    };
    if args.len() >= 3 && args[1] == "--replay" {
        std::process::exit(replay_main(&def, &args[2]));
    }
    if args.len() >= 2 {
        if let Some(t) = tier_of(&args[1]) {
            std::process::exit(parent_main(&def, t));
        }
    }
    usage();
}
