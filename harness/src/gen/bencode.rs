//! proptest strategies for bencode values and documents.

use crate::refmodel::bencode::RVal;
use proptest::collection::vec;
use proptest::prelude::*;

pub fn int_strategy() -> BoxedStrategy<i64> {
    prop_oneof![
        4 => any::<i64>(),
        2 => -20i64..20,
        1 => prop_oneof![
            Just(0i64), Just(-1), Just(1), Just(i64::MAX), Just(i64::MIN), Just(i64::MAX - 1), Just(i64::MIN + 1),
            Just(1 << 31), Just(1 << 32), Just((1 << 32) - 1), Just(-(1 << 31)), Just(10), Just(-10), Just(100),
            Just(1_000_000_000_000_000_000), Just(-1_000_000_000_000_000_000)
        ],
    ]
    .boxed()
}

/// Byte strings with extra weight on the bytes that are bencode delimiters.
pub fn bytes_strategy(max: usize) -> BoxedStrategy<Vec<u8>> {
    let byte = prop_oneof![
        3 => any::<u8>(),
        3 => prop::sample::select(b":eild-0123456789".to_vec()),
        1 => prop::sample::select(vec![0u8, 0xff, 0x7f, 0x80, b' ', b'\n']),
    ];
    vec(byte, 0..=max).boxed()
}

pub fn key_strategy() -> BoxedStrategy<Vec<u8>> {
    prop_oneof![
        3 => prop::sample::select(vec![
            b"".to_vec(), b"a".to_vec(), b"ab".to_vec(), b"abc".to_vec(), b"b".to_vec(), b"B".to_vec(),
            vec![0xff], vec![0xff, 0x00], vec![0x7f], vec![0x80], vec![0x00], b"info".to_vec(), b"1:a".to_vec(),
            b"e".to_vec(), b"i1e".to_vec(), b"10".to_vec(), b"9".to_vec(), b"aa".to_vec(), b"a\x00".to_vec(),
        ]),
        2 => bytes_strategy(8),
    ]
    .boxed()
}

fn dedup_keys(mut d: Vec<(Vec<u8>, RVal)>) -> Vec<(Vec<u8>, RVal)> {
    let mut seen = std::collections::HashSet::new();
    d.retain(|(k, _)| seen.insert(k.clone()));
    d
}

/// Values with unique dictionary keys (what rdest's HashMap-based BValue can represent), keys in generated order.
/// Strings whose length sits at a digit-count boundary of the length prefix (9|10, 99|100, ... 9999999|10000000).
pub fn boundary_len_string() -> BoxedStrategy<Vec<u8>> {
    prop_oneof![
        200 => prop::sample::select(vec![9usize, 10, 11, 99, 100, 101, 255, 256, 999, 1000, 1001]),
        40 => prop::sample::select(vec![9_999usize, 10_000, 65_535, 65_536, 99_999, 100_000]),
        4 => prop::sample::select(vec![999_999usize, 1_000_000]),
        1 => prop::sample::select(vec![9_999_999usize, 10_000_000, 10_000_001]),
    ]
    .prop_flat_map(|n| (Just(n), any::<u8>()))
    // (thousands of `l` in a row become thousands of nested lists once a mutation damages the length prefix: that is
    // the deep-nesting known finding of C16, probed on purpose by its sub `deep` and excluded here by construction)
    .prop_map(|(n, b)| vec![if b == b'l' && n > 5000 { b'L' } else { b }; n])
    .boxed()
}

pub fn rval_unique(max_str: usize) -> BoxedStrategy<RVal> {
    let leaf = prop_oneof![
        40 => int_strategy().prop_map(RVal::Int),
        40 => bytes_strategy(max_str).prop_map(RVal::Str),
        1 => boundary_len_string().prop_map(RVal::Str),
    ];
    leaf.prop_recursive(5, 48, 6, |inner| {
        prop_oneof![
            vec(inner.clone(), 0..6).prop_map(RVal::List),
            vec((key_strategy(), inner), 0..6).prop_map(|d| RVal::Dict(dedup_keys(d))),
        ]
    })
    .boxed()
}

/// Values whose dictionaries may carry duplicate keys, in any order.
pub fn rval_any(max_str: usize) -> BoxedStrategy<RVal> {
    let leaf = prop_oneof![
        int_strategy().prop_map(RVal::Int),
        bytes_strategy(max_str).prop_map(RVal::Str),
    ];
    leaf.prop_recursive(5, 48, 6, |inner| {
        prop_oneof![
            vec(inner.clone(), 0..6).prop_map(RVal::List),
            vec((key_strategy(), inner), 0..6).prop_map(RVal::Dict),
        ]
    })
    .boxed()
}
