pub mod bencode;

/// Monotone index mapping (shrinks well, unlike `%`): maps a u16 into 0..=len-1 (or 0 when len == 0).
pub fn idx(i: u16, len: usize) -> usize {
    if len == 0 {
        0
    } else {
        ((i as usize) * len) >> 16
    }
}

/// Maps a u16 into 0..=len (a cut position).
pub fn cut(i: u16, len: usize) -> usize {
    ((i as usize) * (len + 1)) >> 16
}

/// Reads structured choices from a fuzzer's byte string (hand-written decoders for the coverage-guided campaigns:
/// one byte or a few per choice, so that a local mutation of the bytes is a local mutation of the case). Once the
/// bytes are used up every read yields 0 and `done()` turns true.
pub struct ByteReader<'a> {
    d: &'a [u8],
    i: usize,
}

impl<'a> ByteReader<'a> {
    pub fn new(d: &'a [u8]) -> Self {
        ByteReader { d, i: 0 }
    }
    pub fn done(&self) -> bool {
        self.i >= self.d.len()
    }
    pub fn u8(&mut self) -> u8 {
        let v = self.d.get(self.i).copied().unwrap_or(0);
        self.i += 1;
        v
    }
    /// a u16 spread over the whole range from one byte (indices are mapped monotonically onto small sets)
    pub fn ix(&mut self) -> u16 {
        let b = self.u8() as u16;
        (b << 8) | b
    }
    pub fn u16(&mut self) -> u16 {
        let a = self.u8() as u16;
        let b = self.u8() as u16;
        a | (b << 8)
    }
    pub fn u32(&mut self) -> u32 {
        self.u16() as u32 | ((self.u16() as u32) << 16)
    }
    pub fn u64(&mut self) -> u64 {
        self.u32() as u64 | ((self.u32() as u64) << 32)
    }
    pub fn bool(&mut self) -> bool {
        self.u8() & 1 == 1
    }
    /// uniform-ish choice in 0..n (n <= 256)
    pub fn below(&mut self, n: usize) -> usize {
        if n == 0 {
            0
        } else {
            self.u8() as usize % n
        }
    }
    pub fn pick<T: Clone>(&mut self, xs: &[T]) -> T {
        xs[self.below(xs.len())].clone()
    }
}
