pub mod bencode;

/// Monotone index mapping (shrinks well, unlike `%`): maps a u16 into 0..=len-1 (or 0 when len == 0).
pub fn idx(i: u16, len: usize) -> usize {
    if len == 0 {
        0
    } else {
        ((i as usize) * len) >> 16
    }
}

/// Maps a u16 into 0..=len (a cut position).
pub fn cut(i: u16, len: usize) -> usize {
    ((i as usize) * (len + 1)) >> 16
}
