//! Coverage-guided fuzzing of the generated session-level checks (thorough tier, fuzz target `fz_hist`).
//!
//! Each fuzzable check has a hand-written byte decoder (`case_from_bytes`: one or a few bytes per choice, so that a
//! small mutation of the bytes is a small mutation of the history - one op changed, one op more); libFuzzer's coverage
//! feedback over rdest and over the harness's own classification code steers the search towards histories that reach
//! new manager / connection-task states. The oracle is the check's own; a violation is written as an ordinary replay
//! file holding the decoded case, not the bytes.
//!
//! (proptest's pass-through RNG would have let the fuzzer drive the checks' own strategies, but it halves its buffer at
//! every `prop_oneof!` alternative kept for shrinking and then yields zeros, on which rand's unbiased range sampling
//! never terminates; tried and dropped.)

use crate::engine::Outcome;
use serde_json::Value;

/// (property, sub whose `replay` understands the case)
pub const TARGETS: &[(&str, &str)] = &[("C09", "requests"), ("C10", "tiling"), ("C11", "announcements"), ("C12", "histories"), ("C13", "histories"), ("C20", "schedules")];

/// Run one fuzz input against property `prop`: the decoded case (as JSON) and the check's outcome.
pub fn run(prop: &str, data: &[u8]) -> Option<(Value, Outcome)> {
    use crate::props::*;
    fn j<C: serde::Serialize>(c: &C) -> Value {
        serde_json::to_value(c).unwrap_or(Value::Null)
    }
    Some(match prop {
        "C09" => {
            let c = c09::case_from_bytes(data);
            (j(&c), c09::check(&c))
        }
        "C10" => {
            let c = c10::case_from_bytes(data);
            (j(&c), c10::check(&c))
        }
        "C11" => {
            let c = c11::case_from_bytes(data);
            (j(&c), c11::check(&c))
        }
        "C12" => {
            let c = c12::case_from_bytes(data);
            (j(&c), c12::check(&c))
        }
        "C13" => {
            let c = c12::case_from_bytes(data);
            (j(&c), c12::check_c13_only(&c))
        }
        "C20" => {
            let c = c20::case_from_bytes(data);
            (j(&c), c20::check(&c))
        }
        _ => return None,
    })
}

pub fn sub_of(prop: &str) -> &'static str {
    TARGETS.iter().find(|(p, _)| *p == prop).map(|(_, s)| *s).unwrap_or("?")
}
