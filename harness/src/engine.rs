//! Engine shared by all property checks: proptest driving, worker processes,
//! evidence, replay files and known findings.

use proptest::strategy::{Strategy, ValueTree};
use proptest::test_runner::{Config, RngSeed, TestCaseError, TestError, TestRunner};
use serde::{de::DeserializeOwned, Deserialize, Serialize};
use serde_json::{json, Value};
use std::cell::RefCell;
use std::collections::{BTreeMap, BTreeSet, HashSet};
use std::fmt::Debug;
use std::hash::{Hash, Hasher};
use std::path::{Path, PathBuf};
use std::time::Instant;

pub const VERIF_ROOT: &str = "/verif";

#[derive(Clone, Copy, Debug, PartialEq, Eq)]
pub enum Tier {
    Quick,
    Thorough,
}

impl Tier {
    pub fn name(&self) -> &'static str {
        match self {
            Tier::Quick => "quick",
            Tier::Thorough => "thorough",
        }
    }
    pub fn pick<T>(&self, quick: T, thorough: T) -> T {
        match self {
            Tier::Quick => quick,
            Tier::Thorough => thorough,
        }
    }
}

#[derive(Clone, Debug, Serialize, Deserialize, PartialEq)]
pub struct Failure {
    pub signature: String,
    pub detail: String,
}

/// Result of running one case through a property's oracle.
#[derive(Clone, Debug, Default)]
pub struct Outcome {
    pub fails: Vec<Failure>,
    pub nontrivial: bool,
    pub classes: Vec<&'static str>,
    /// things the generator/interpreter steered around (known-finding classes)
    pub excluded: Vec<&'static str>,
}

impl Outcome {
    pub fn new() -> Outcome {
        Outcome::default()
    }
    pub fn fail(&mut self, signature: impl Into<String>, detail: impl Into<String>) {
        let signature = signature.into();
        // keep one failure per signature per case
        if self.fails.iter().any(|f| f.signature == signature) {
            return;
        }
        self.fails.push(Failure {
            signature,
            detail: detail.into(),
        });
    }
    pub fn class(&mut self, c: &'static str) {
        if !self.classes.contains(&c) {
            self.classes.push(c);
        }
    }
    pub fn class_if(&mut self, cond: bool, c: &'static str) {
        if cond {
            self.class(c)
        }
    }
    pub fn exclude(&mut self, c: &'static str) {
        self.excluded.push(c);
    }
    pub fn ok(&self) -> bool {
        self.fails.is_empty()
    }
}

#[derive(Clone, Debug, Serialize, Deserialize)]
pub struct FailRec {
    pub sub: String,
    pub signature: String,
    pub detail: String,
    pub case: Value,
}

#[derive(Clone, Debug, Default, Serialize, Deserialize)]
pub struct WorkerReport {
    pub sub: String,
    pub evaluations: u64,
    pub nontrivial_hashes: Vec<u64>,
    /// distinct non-trivial cases counted by construction (exhaustive enumerations), not hashed
    pub distinct_by_construction: u64,
    pub classes: BTreeMap<String, u64>,
    pub samples: Vec<Value>,
    pub failure: Option<FailRec>,
    pub known_hits: BTreeMap<String, u64>,
    pub excluded: BTreeMap<String, u64>,
    pub exhaustive: Option<String>,
    pub inconclusive: Option<String>,
    pub extra: BTreeMap<String, Value>,
}

pub struct WorkerCtx {
    pub tier: Tier,
    pub seed: u64,
    pub idx: usize,
    pub n: usize,
    /// total number of cases for this sub-check across all workers
    pub total_cases: u64,
    pub known: HashSet<String>,
}

impl WorkerCtx {
    /// Cases this worker must run.
    pub fn my_cases(&self) -> u64 {
        let base = self.total_cases / self.n as u64;
        let rem = self.total_cases % self.n as u64;
        base + if (self.idx as u64) < rem { 1 } else { 0 }
    }
    pub fn rng_seed(&self, sub: &str) -> u64 {
        let mut h = Fnv::new();
        self.seed.hash(&mut h);
        sub.hash(&mut h);
        (self.idx as u64).hash(&mut h);
        h.finish()
    }
}

/// FNV-1a: stable across runs and platforms (unlike DefaultHasher's contract).
pub struct Fnv(u64);
impl Fnv {
    pub fn new() -> Fnv {
        Fnv(0xcbf29ce484222325)
    }
}
impl Hasher for Fnv {
    fn finish(&self) -> u64 {
        self.0
    }
    fn write(&mut self, bytes: &[u8]) {
        for b in bytes {
            self.0 ^= *b as u64;
            self.0 = self.0.wrapping_mul(0x100000001b3);
        }
    }
}

pub fn hash_debug<T: Debug>(v: &T) -> u64 {
    let mut h = Fnv::new();
    format!("{:?}", v).hash(&mut h);
    h.finish()
}

/// One independently generated sub-check of a property.
pub struct Sub {
    pub name: &'static str,
    pub cases: fn(Tier) -> u64,
    pub run: fn(&WorkerCtx) -> WorkerReport,
    pub replay: fn(&Value) -> Outcome,
    /// minimum fraction of evaluations that must carry each class, else the run is vacuous
    pub min_class: &'static [(&'static str, f64)],
}

pub struct PropDef {
    pub id: &'static str,
    pub rule: &'static str,
    pub assumptions: &'static [&'static str],
    pub subs: Vec<Sub>,
}

// ---------------------------------------------------------------- panics

thread_local! {
    static LAST_PANIC: RefCell<Option<String>> = RefCell::new(None);
}

pub fn install_panic_hook() {
    std::panic::set_hook(Box::new(|info| {
        let loc = info
            .location()
            .map(|l| format!("{}:{}", l.file(), l.line()))
            .unwrap_or_default();
        let msg = if let Some(s) = info.payload().downcast_ref::<&str>() {
            s.to_string()
        } else if let Some(s) = info.payload().downcast_ref::<String>() {
            s.clone()
        } else {
            "<non-string panic>".to_string()
        };
        LAST_PANIC.with(|p| *p.borrow_mut() = Some(format!("{} @ {}", msg, loc)));
    }));
}

/// For fuzz targets: record panics caught by `catch` quietly, but leave uncaught ones (outside `catch`) loud.
pub fn install_panic_hook_quiet() {
    install_panic_hook();
}

pub fn take_last_panic() -> Option<String> {
    LAST_PANIC.with(|p| p.borrow_mut().take())
}

/// Run a closure, turning a panic into Err(message @ file:line).
pub fn catch<T>(f: impl FnOnce() -> T) -> Result<T, String> {
    match std::panic::catch_unwind(std::panic::AssertUnwindSafe(f)) {
        Ok(v) => Ok(v),
        Err(_) => Err(take_last_panic().unwrap_or_else(|| "panic".to_string())),
    }
}

/// Short, stable signature for a panic: file:line of the panic site, with /repo/ stripped.
pub fn panic_signature(msg: &str) -> String {
    let loc = msg.rsplit(" @ ").next().unwrap_or("");
    let loc = loc.trim_start_matches("/repo/");
    // registry paths: keep crate-relative tail
    let loc = match loc.find("/registry/src/") {
        Some(i) => {
            let tail = &loc[i + 14..];
            tail.splitn(2, '/').nth(1).unwrap_or(tail)
        }
        None => loc,
    };
    format!("panic@{}", loc)
}

// ---------------------------------------------------------------- proptest driver

/// Drive `check` with cases from `strategy`. Known-signature failures are tolerated and counted;
/// the first failure with an unknown signature stops the search and is shrunk.
pub fn run_proptest<C, S>(ctx: &WorkerCtx, sub: &'static str, strategy: S, check: impl Fn(&C) -> Outcome) -> WorkerReport
where
    C: Debug + Clone + Serialize + 'static,
    S: Strategy<Value = C>,
{
    run_proptest_cfg(ctx, sub, strategy, check, 20000)
}

/// Like run_proptest with a bound on shrink iterations (expensive real-time cases).
pub fn run_proptest_cfg<C, S>(
    ctx: &WorkerCtx,
    sub: &'static str,
    strategy: S,
    check: impl Fn(&C) -> Outcome,
    max_shrink_iters: u32,
) -> WorkerReport
where
    C: Debug + Clone + Serialize + 'static,
    S: Strategy<Value = C>,
{
    let cases = ctx.my_cases();
    let mut rep = WorkerReport {
        sub: sub.to_string(),
        ..Default::default()
    };
    if cases == 0 {
        return rep;
    }
    let config = Config {
        cases: cases as u32,
        failure_persistence: None,
        rng_seed: RngSeed::Fixed(ctx.rng_seed(sub)),
        max_shrink_iters,
        max_shrink_time: 120_000,
        max_global_rejects: 10_000_000,
        max_local_rejects: 10_000_000,
        verbose: 0,
        ..Config::default()
    };
    let mut runner = TestRunner::new(config);

    struct St {
        rep: WorkerReport,
        seen: HashSet<u64>,
        stopped: bool,
        first_fail: Option<(Value, Failure)>,
    }
    let st = RefCell::new(St {
        rep,
        seen: HashSet::new(),
        stopped: false,
        first_fail: None,
    });

    // Write-ahead record (parser-facing subs only): the case about to run is stored in the worker directory, so that a
    // worker killed by SIGABRT / SIGSEGV (allocation failure, stack overflow: nothing a panic hook sees) still yields
    // the input that killed it.
    let wal: Option<std::fs::File> = if std::env::var("VERIF_WAL").is_ok() {
        std::fs::OpenOptions::new().create(true).write(true).open(worker_dir().join(format!("wal-{}.bin", sub))).ok()
    } else {
        None
    };

    let result = runner.run(&strategy, |case| {
        if let Some(f) = &wal {
            use std::os::unix::fs::FileExt;
            if let Ok(js) = serde_json::to_vec(&case) {
                if js.len() < (1 << 20) {
                    let _ = f.write_all_at(&(js.len() as u32).to_le_bytes(), 0);
                    let _ = f.write_all_at(&js, 4);
                } else {
                    let _ = f.write_all_at(&0u32.to_le_bytes(), 0);
                }
            }
        }
        let out = check(&case);
        let mut st = st.borrow_mut();
        let unknown: Vec<&Failure> = out
            .fails
            .iter()
            .filter(|f| !ctx.known.contains(&f.signature))
            .collect();
        if !st.stopped {
            st.rep.evaluations += 1;
            for c in &out.classes {
                *st.rep.classes.entry(c.to_string()).or_insert(0) += 1;
            }
            for c in &out.excluded {
                *st.rep.excluded.entry(c.to_string()).or_insert(0) += 1;
            }
            for f in &out.fails {
                if ctx.known.contains(&f.signature) {
                    *st.rep.known_hits.entry(f.signature.clone()).or_insert(0) += 1;
                }
            }
            if out.nontrivial {
                let h = hash_debug(&case);
                if st.seen.insert(h) && st.rep.samples.len() < 3 {
                    let v = serde_json::to_value(&case).unwrap_or(Value::Null);
                    st.rep.samples.push(truncate_json(v, 1500));
                }
            }
        }
        if let Some(f) = unknown.first() {
            if st.first_fail.is_none() {
                st.first_fail = Some((serde_json::to_value(&case).unwrap_or(Value::Null), (*f).clone()));
            }
            st.stopped = true;
            return Err(TestCaseError::fail(f.signature.clone()));
        }
        Ok(())
    });

    let mut st = st.into_inner();
    st.rep.nontrivial_hashes = st.seen.into_iter().collect();
    match result {
        Ok(()) => {}
        Err(TestError::Fail(_, case)) => {
            // re-run the minimal case for its final signature and detail; the code under test has its own
            // unseedable randomness, so retry, and fall back to the first failing case as it was observed
            let mut found: Option<Failure> = None;
            for _ in 0..20 {
                let out = check(&case);
                found = out.fails.iter().find(|f| !ctx.known.contains(&f.signature)).cloned();
                if found.is_some() {
                    break;
                }
            }
            st.rep.failure = Some(match (found, st.first_fail.take()) {
                (Some(f), _) => FailRec {
                    sub: sub.to_string(),
                    signature: f.signature,
                    detail: f.detail,
                    case: serde_json::to_value(&case).unwrap_or(Value::Null),
                },
                (None, Some((case0, f))) => FailRec {
                    sub: sub.to_string(),
                    signature: f.signature,
                    detail: format!("(unshrunk: the shrunk case did not fail again in 20 runs) {}", f.detail),
                    case: case0,
                },
                (None, None) => FailRec {
                    sub: sub.to_string(),
                    signature: "unstable".into(),
                    detail: "shrunk case did not fail again when re-run".into(),
                    case: serde_json::to_value(&case).unwrap_or(Value::Null),
                },
            });
        }
        Err(TestError::Abort(reason)) => {
            st.rep.inconclusive = Some(format!("proptest aborted: {}", reason));
        }
    }
    st.rep
}

/// Generate one value from a strategy (used by exhaustive/other drivers that still want generated data).
pub fn sample_one<S: Strategy>(runner: &mut TestRunner, s: &S) -> S::Value {
    s.new_tree(runner).unwrap().current()
}

pub fn truncate_json(v: Value, max: usize) -> Value {
    let s = v.to_string();
    if s.len() <= max {
        v
    } else {
        let mut cut = max;
        while !s.is_char_boundary(cut) {
            cut -= 1;
        }
        json!({ "truncated_json": format!("{}…", &s[..cut]), "full_len": s.len() })
    }
}

/// Generic replay: deserialize a case and run it.
pub fn replay_case<C: DeserializeOwned>(v: &Value, check: impl Fn(&C) -> Outcome) -> Outcome {
    match serde_json::from_value::<C>(v.clone()) {
        Ok(case) => check(&case),
        Err(e) => {
            let mut o = Outcome::new();
            o.fail("replay-parse-error", format!("cannot parse replay case: {}", e));
            o
        }
    }
}

// ---------------------------------------------------------------- known findings

#[derive(Clone, Debug, Deserialize)]
pub struct KnownEntry {
    pub status: String, // "known" | "fixed"
    pub property: String,
    pub signature: String,
    pub what: String,
    #[serde(default)]
    pub sub: Option<String>,
    #[serde(default)]
    pub witness: Option<Value>,
    #[serde(default)]
    pub commit: Option<String>,
}

pub fn load_known() -> Vec<KnownEntry> {
    let p = Path::new(VERIF_ROOT).join("known_findings.json");
    match std::fs::read(&p) {
        Ok(b) => {
            let v: Value = serde_json::from_slice(&b).expect("known_findings.json must be JSON");
            serde_json::from_value(v["findings"].clone()).expect("known_findings.json: findings")
        }
        Err(_) => vec![],
    }
}

pub fn known_signatures(id: &str) -> HashSet<String> {
    load_known()
        .into_iter()
        .filter(|k| k.status == "known" && k.property == id)
        .map(|k| k.signature)
        .collect()
}

// ---------------------------------------------------------------- work dirs

/// Work directories are private to one invocation of a check (tag = pid of the parent), so that concurrent runs of
/// the same property do not disturb each other.
fn run_tag() -> String {
    std::env::var("VERIF_RUN_TAG").unwrap_or_else(|_| std::process::id().to_string())
}

fn run_root(id: &str) -> PathBuf {
    Path::new(VERIF_ROOT).join("work").join(format!("{}.{}", id, run_tag()))
}

pub fn work_dir(id: &str, idx: usize) -> PathBuf {
    run_root(id).join(idx.to_string())
}

/// Make `<worker dir>/c` an empty directory and chdir into it. Called per case by checks that touch disk.
pub fn fresh_cwd() -> PathBuf {
    let base = WORKER_DIR.with(|w| w.borrow().clone()).expect("worker dir not set");
    let c = base.join("c");
    let _ = std::env::set_current_dir(&base);
    let _ = std::fs::remove_dir_all(&c);
    std::fs::create_dir_all(&c).expect("create case dir");
    std::env::set_current_dir(&c).expect("chdir case dir");
    c
}

thread_local! {
    static WORKER_DIR: RefCell<Option<PathBuf>> = RefCell::new(None);
}

pub fn set_worker_dir(p: &Path) {
    std::fs::create_dir_all(p).expect("create worker dir");
    std::env::set_current_dir(p).expect("chdir worker dir");
    WORKER_DIR.with(|w| *w.borrow_mut() = Some(p.to_path_buf()));
}

pub fn worker_dir() -> PathBuf {
    WORKER_DIR.with(|w| w.borrow().clone()).expect("worker dir not set")
}

// ---------------------------------------------------------------- parent: orchestrate workers

fn env_seed() -> u64 {
    std::env::var("VERIF_SEED")
        .ok()
        .and_then(|s| s.trim().parse::<i128>().ok())
        .map(|v| v as u64)
        .unwrap_or(0)
}

fn n_workers() -> usize {
    std::env::var("VERIF_WORKERS")
        .ok()
        .and_then(|s| s.parse().ok())
        .unwrap_or_else(|| {
            std::thread::available_parallelism()
                .map(|n| n.get())
                .unwrap_or(4)
                .min(16)
        })
}

pub fn worker_main(def: &PropDef, tier: Tier, sub_name: &str, idx: usize, n: usize) -> i32 {
    install_panic_hook();
    let sub = match def.subs.iter().find(|s| s.name == sub_name) {
        Some(s) => s,
        None => {
            eprintln!("unknown sub {}", sub_name);
            return 2;
        }
    };
    let dir = work_dir(def.id, idx);
    let _ = std::fs::remove_dir_all(&dir);
    set_worker_dir(&dir);
    let ctx = WorkerCtx {
        tier,
        seed: env_seed(),
        idx,
        n,
        total_cases: (sub.cases)(tier),
        known: known_signatures(def.id),
    };
    let rep = (sub.run)(&ctx);
    let _ = std::env::set_current_dir(&dir);
    let out = dir.join(format!("report-{}.json", sub_name));
    std::fs::write(&out, serde_json::to_vec(&rep).unwrap()).expect("write report");
    let _ = std::fs::remove_dir_all(dir.join("c"));
    0
}

/// Subs that hand attacker-controlled bytes to rdest's parsers in-process: they run with the write-ahead record.
const WAL_SUBS: &[(&str, &str)] = &[("C05", "documents"), ("C15", "roundtrip"), ("C16", "mutations"), ("C17", "faithful"), ("C17", "totality"), ("C19", "replies"), ("C19", "totality")];

pub fn parent_main(def: &PropDef, tier: Tier) -> i32 {
    install_panic_hook();
    let t0 = Instant::now();
    let seed = env_seed();
    let n = n_workers();
    let exe = std::env::current_exe().expect("current_exe");
    let known_all = load_known();
    let known: Vec<&KnownEntry> = known_all
        .iter()
        .filter(|k| k.property == def.id && k.status == "known")
        .collect();

    let budget_s: u64 = std::env::var("VERIF_BUDGET_S")
        .ok()
        .and_then(|s| s.parse().ok())
        .unwrap_or(tier.pick(1500, 6 * 3600));

    let mut reports: Vec<WorkerReport> = vec![];
    let mut inconclusive: Vec<String> = vec![];

    for sub in &def.subs {
        if (sub.cases)(tier) == 0 {
            continue;
        }
        let mut children = vec![];
        for idx in 0..n {
            let child = std::process::Command::new(&exe)
                .arg("--worker")
                .arg(def.id)
                .arg(tier.name())
                .arg(sub.name)
                .arg(idx.to_string())
                .arg(n.to_string())
                .env("VERIF_SEED", seed.to_string())
                .env("VERIF_RUN_TAG", run_tag())
                .envs(if WAL_SUBS.contains(&(def.id, sub.name)) { vec![("VERIF_WAL", "1")] } else { vec![] })
                .stdin(std::process::Stdio::null())
                .spawn()
                .expect("spawn worker");
            children.push((idx, child));
        }
        for (idx, mut child) in children {
            // wait with watchdog
            let status = loop {
                match child.try_wait() {
                    Ok(Some(st)) => break Some(st),
                    Ok(None) => {
                        if t0.elapsed().as_secs() > budget_s {
                            let _ = child.kill();
                            let _ = child.wait();
                            break None;
                        }
                        std::thread::sleep(std::time::Duration::from_millis(20));
                    }
                    Err(_) => break None,
                }
            };
            let dir = work_dir(def.id, idx);
            let path = dir.join(format!("report-{}.json", sub.name));
            match status {
                Some(st) if st.success() => match std::fs::read(&path) {
                    Ok(b) => match serde_json::from_slice::<WorkerReport>(&b) {
                        Ok(r) => reports.push(r),
                        Err(e) => inconclusive.push(format!("{} worker {}: bad report: {}", sub.name, idx, e)),
                    },
                    Err(e) => inconclusive.push(format!("{} worker {}: no report: {}", sub.name, idx, e)),
                },
                Some(st) => {
                    use std::os::unix::process::ExitStatusExt;
                    // killed by a fatal signal of its own making, and the write-ahead record names the case?
                    let wal_case = match st.signal() {
                        Some(sig) if [libc::SIGABRT, libc::SIGSEGV, libc::SIGBUS, libc::SIGILL].contains(&sig) => std::fs::read(dir.join(format!("wal-{}.bin", sub.name))).ok().and_then(|b| {
                            if b.len() < 4 {
                                return None;
                            }
                            let n = u32::from_le_bytes([b[0], b[1], b[2], b[3]]) as usize;
                            if n == 0 || b.len() < 4 + n {
                                return None;
                            }
                            serde_json::from_slice::<Value>(&b[4..4 + n]).ok().map(|v| (sig, v))
                        }),
                        _ => None,
                    };
                    match wal_case {
                        Some((sig, case)) => reports.push(WorkerReport {
                            sub: sub.name.to_string(),
                            failure: Some(FailRec {
                                sub: sub.name.to_string(),
                                signature: format!("process-killed-by-signal-{}", sig),
                                detail: format!("the worker process was killed by signal {} (abort / stack overflow / failed allocation) while it ran the recorded case; replaying it kills the replaying process too", sig),
                                case,
                            }),
                            ..Default::default()
                        }),
                        None => inconclusive.push(format!("{} worker {} exited with {}", sub.name, idx, st)),
                    }
                }
                None => inconclusive.push(format!("{} worker {} killed by watchdog after {} s", sub.name, idx, budget_s)),
            }
            let _ = std::fs::remove_dir_all(&dir);
        }
    }
    let _ = std::fs::remove_dir_all(run_root(def.id));

    // ---- aggregate
    let mut evaluations = 0u64;
    let mut distinct: BTreeSet<(String, u64)> = BTreeSet::new();
    let mut distinct_extra = 0u64;
    let mut classes: BTreeMap<String, u64> = BTreeMap::new();
    let mut per_sub_eval: BTreeMap<String, u64> = BTreeMap::new();
    let mut samples: Vec<Value> = vec![];
    let mut samples_per_sub: BTreeMap<String, usize> = BTreeMap::new();
    let mut known_hits: BTreeMap<String, u64> = BTreeMap::new();
    let mut excluded: BTreeMap<String, u64> = BTreeMap::new();
    let mut exhaustive: Vec<String> = vec![];
    let mut extra: BTreeMap<String, Value> = BTreeMap::new();
    let mut failures: Vec<FailRec> = vec![];
    for r in &reports {
        evaluations += r.evaluations;
        *per_sub_eval.entry(r.sub.clone()).or_insert(0) += r.evaluations;
        for h in &r.nontrivial_hashes {
            distinct.insert((r.sub.clone(), *h));
        }
        distinct_extra += r.distinct_by_construction;
        for (k, v) in &r.classes {
            *classes.entry(format!("{}/{}", r.sub, k)).or_insert(0) += v;
        }
        for s in &r.samples {
            let c = samples_per_sub.entry(r.sub.clone()).or_insert(0);
            if *c < 3 {
                samples.push(json!({"sub": r.sub, "case": s}));
                *c += 1;
            }
        }
        for (k, v) in &r.known_hits {
            *known_hits.entry(k.clone()).or_insert(0) += v;
        }
        for (k, v) in &r.excluded {
            *excluded.entry(k.clone()).or_insert(0) += v;
        }
        if let Some(e) = &r.exhaustive {
            if !exhaustive.contains(e) {
                exhaustive.push(e.clone());
            }
        }
        for (k, v) in &r.extra {
            // numeric extras are summed, others keep the first value
            match (extra.get(k).and_then(|x| x.as_u64()), v.as_u64()) {
                (Some(a), Some(b)) => {
                    extra.insert(k.clone(), json!(a + b));
                }
                (None, _) if !extra.contains_key(k) => {
                    extra.insert(k.clone(), v.clone());
                }
                _ => {}
            }
        }
        if let Some(f) = &r.failure {
            failures.push(f.clone());
        }
        if let Some(i) = &r.inconclusive {
            inconclusive.push(format!("{}: {}", r.sub, i));
        }
    }

    // ---- vacuity
    let mut vacuous: Vec<String> = vec![];
    for sub in &def.subs {
        let ev = *per_sub_eval.get(sub.name).unwrap_or(&0);
        if ev == 0 {
            continue;
        }
        for (c, min) in sub.min_class {
            let got = *classes.get(&format!("{}/{}", sub.name, c)).unwrap_or(&0);
            if (got as f64) < min * ev as f64 {
                vacuous.push(format!(
                    "{}/{}: {} of {} cases ({:.4}) < required fraction {}",
                    sub.name,
                    c,
                    got,
                    ev,
                    got as f64 / ev as f64,
                    min
                ));
            }
        }
    }

    // ---- known findings: witnesses
    let mut known_lines: Vec<String> = vec![];
    for k in &known {
        let mut still = *known_hits.get(&k.signature).unwrap_or(&0) > 0;
        if let (Some(w), Some(subname)) = (&k.witness, &k.sub) {
            if let Some(sub) = def.subs.iter().find(|s| s.name == subname) {
                let dir = work_dir(def.id, 99);
                let _ = std::fs::remove_dir_all(&dir);
                set_worker_dir(&dir);
                let out = (sub.replay)(w);
                let _ = std::env::set_current_dir(VERIF_ROOT);
                let _ = std::fs::remove_dir_all(&dir);
                let w_fails = out.fails.iter().any(|f| f.signature == k.signature);
                // an unknown failure on a committed witness is a violation like any other
                for f in out.fails.iter() {
                    if !known.iter().any(|kk| kk.signature == f.signature) {
                        failures.push(FailRec {
                            sub: subname.clone(),
                            signature: f.signature.clone(),
                            detail: format!("(on witness of {}) {}", k.signature, f.detail),
                            case: w.clone(),
                        });
                    }
                }
                still = still || w_fails;
            }
        }
        if still {
            known_lines.push(format!(
                "KNOWN-FINDING: property={} {} [{}] hits={}",
                def.id,
                k.what,
                k.signature,
                known_hits.get(&k.signature).unwrap_or(&0)
            ));
        }
    }
    let _ = std::fs::remove_dir_all(run_root(def.id));

    // ---- committed regression inputs (corpus/<ID>/*.json): the seconds-long replay tier
    let mut corpus_replayed = 0u64;
    let cdir = Path::new(VERIF_ROOT).join("corpus").join(def.id);
    if let Ok(rd) = std::fs::read_dir(&cdir) {
        let mut files: Vec<PathBuf> = rd.flatten().map(|e| e.path()).filter(|p| p.extension().map(|e| e == "json").unwrap_or(false)).collect();
        files.sort();
        for f in files {
            let body: Value = match std::fs::read(&f).ok().and_then(|b| serde_json::from_slice(&b).ok()) {
                Some(v) => v,
                None => continue,
            };
            let subname = body["sub"].as_str().unwrap_or("");
            if let Some(sub) = def.subs.iter().find(|s| s.name == subname) {
                let dir = work_dir(def.id, 97);
                let _ = std::fs::remove_dir_all(&dir);
                set_worker_dir(&dir);
                for _try in 0..3 {
                    let out = (sub.replay)(&body["case"]);
                    for fl in out.fails.iter() {
                        if known.iter().any(|kk| kk.signature == fl.signature) {
                            *known_hits.entry(fl.signature.clone()).or_insert(0) += 1;
                        } else {
                            failures.push(FailRec {
                                sub: subname.to_string(),
                                signature: fl.signature.clone(),
                                detail: format!("(corpus {}) {}", f.file_name().unwrap().to_string_lossy(), fl.detail),
                                case: body["case"].clone(),
                            });
                        }
                    }
                }
                corpus_replayed += 1;
                let _ = std::env::set_current_dir(VERIF_ROOT);
                let _ = std::fs::remove_dir_all(&dir);
            }
        }
    }
    let _ = std::fs::remove_dir_all(run_root(def.id));

    // ---- evidence
    let wall = t0.elapsed().as_secs_f64();
    let mut coverage = serde_json::Map::new();
    coverage.insert("evaluations".into(), json!(evaluations));
    coverage.insert("distinct_nontrivial".into(), json!(distinct.len() as u64 + distinct_extra));
    coverage.insert("rule".into(), json!(def.rule));
    coverage.insert("samples".into(), json!(samples));
    coverage.insert("classes".into(), json!(classes));
    coverage.insert("evaluations_per_sub".into(), json!(per_sub_eval));
    coverage.insert("known_finding_hits".into(), json!(known_hits));
    coverage.insert("excluded_known".into(), json!(excluded));
    coverage.insert("workers".into(), json!(n));
    coverage.insert("corpus_inputs_replayed".into(), json!(corpus_replayed));
    if !exhaustive.is_empty() {
        coverage.insert("exhaustive_subspace".into(), json!(exhaustive));
    }
    coverage.insert("exhaustive".into(), json!(false));
    for (k, v) in extra {
        coverage.insert(k, v);
    }
    if !inconclusive.is_empty() {
        coverage.insert("inconclusive".into(), json!(inconclusive));
    }
    if !vacuous.is_empty() {
        coverage.insert("vacuous".into(), json!(vacuous));
    }
    let evidence = json!({
        "property_id": def.id,
        "tier": tier.name(),
        "seed": (seed & 0x7fff_ffff_ffff_ffff) as i64,
        "level": "exploration",
        "coverage": Value::Object(coverage),
        "assumptions": def.assumptions,
        "wall_s": wall,
        "violations": failures.len(),
    });
    let evdir = Path::new(VERIF_ROOT).join("evidence");
    let _ = std::fs::create_dir_all(&evdir);
    let evpath = evdir.join(format!("{}.json", def.id));
    std::fs::write(&evpath, serde_json::to_vec_pretty(&evidence).unwrap()).expect("write evidence");

    // ---- verdict
    for l in &known_lines {
        println!("{}", l);
    }
    if !failures.is_empty() {
        let rdir = Path::new(VERIF_ROOT).join("replays");
        let _ = std::fs::create_dir_all(&rdir);
        let mut seen = BTreeSet::new();
        for f in &failures {
            if !seen.insert(f.signature.clone()) {
                continue;
            }
            let safe: String = f
                .signature
                .chars()
                .map(|c| if c.is_ascii_alphanumeric() || c == '-' { c } else { '_' })
                .take(60)
                .collect();
            let p = rdir.join(format!("{}-{}-{}.json", def.id, safe, seed));
            let body = json!({"property": def.id, "sub": f.sub, "signature": f.signature, "detail": f.detail, "case": f.case});
            std::fs::write(&p, serde_json::to_vec_pretty(&body).unwrap()).expect("write replay");
            println!("detail: [{}] {}", f.signature, truncate_str(&f.detail, 600));
            println!("VIOLATION property={} replay={}", def.id, p.display());
        }
        return 1;
    }
    if !inconclusive.is_empty() || !vacuous.is_empty() {
        for i in &inconclusive {
            println!("INCONCLUSIVE: {}", i);
        }
        for v in &vacuous {
            println!("VACUOUS: {}", v);
        }
        return 2;
    }
    println!(
        "OK property={} tier={} evaluations={} distinct_nontrivial={} wall_s={:.1}",
        def.id,
        tier.name(),
        evaluations,
        distinct.len() as u64 + distinct_extra,
        wall
    );
    0
}

pub fn truncate_str(s: &str, max: usize) -> String {
    if s.len() <= max {
        s.to_string()
    } else {
        let mut cut = max;
        while !s.is_char_boundary(cut) {
            cut -= 1;
        }
        format!("{}…", &s[..cut])
    }
}

pub fn replay_main(def: &PropDef, path: &str) -> i32 {
    install_panic_hook();
    let body: Value = match std::fs::read(path).ok().and_then(|b| serde_json::from_slice(&b).ok()) {
        Some(v) => v,
        None => {
            eprintln!("cannot read replay file {}", path);
            return 2;
        }
    };
    let subname = body["sub"].as_str().unwrap_or("");
    let sub = match def.subs.iter().find(|s| s.name == subname) {
        Some(s) => s,
        None => {
            eprintln!("replay: unknown sub '{}'", subname);
            return 2;
        }
    };
    let dir = work_dir(def.id, 98);
    let _ = std::fs::remove_dir_all(&dir);
    set_worker_dir(&dir);
    let known = known_signatures(def.id);
    // rdest's own thread_rng cannot be seeded: re-run a few times
    let tries = 20;
    let mut code = 0;
    let mut known_printed: BTreeSet<String> = BTreeSet::new();
    for _ in 0..tries {
        let out = (sub.replay)(&body["case"]);
        let mut bad = false;
        for f in &out.fails {
            if known.contains(&f.signature) {
                if known_printed.insert(f.signature.clone()) {
                    println!("KNOWN-FINDING: property={} [{}] {}", def.id, f.signature, truncate_str(&f.detail, 300));
                }
            } else {
                println!("detail: [{}] {}", f.signature, truncate_str(&f.detail, 1200));
                bad = true;
            }
        }
        if bad {
            println!("VIOLATION property={} replay={}", def.id, path);
            code = 1;
            break;
        }
    }
    let _ = std::env::set_current_dir(VERIF_ROOT);
    let _ = std::fs::remove_dir_all(&dir);
    let _ = std::fs::remove_dir_all(run_root(def.id));
    if code == 0 {
        println!("replay: no violation reproduced");
    }
    code
}
