//! Independent reference model of bencode (written from BEP3 and the text of C15/C16, not from rdest).

use serde::{Deserialize, Serialize};

#[derive(Clone, Debug, PartialEq, Eq, Serialize, Deserialize)]
pub enum RVal {
    Int(i64),
    Str(Vec<u8>),
    List(Vec<RVal>),
    /// pairs in document order; duplicates possible
    Dict(Vec<(Vec<u8>, RVal)>),
}

impl RVal {
    pub fn s(x: &str) -> RVal {
        RVal::Str(x.as_bytes().to_vec())
    }
    pub fn depth(&self) -> usize {
        match self {
            RVal::Int(_) | RVal::Str(_) => 0,
            RVal::List(l) => 1 + l.iter().map(|v| v.depth()).max().unwrap_or(0),
            RVal::Dict(d) => 1 + d.iter().map(|(_, v)| v.depth()).max().unwrap_or(0),
        }
    }
    pub fn has_delim_str(&self) -> bool {
        let is_delim = |b: &u8| b":eild-0123456789".contains(b);
        match self {
            RVal::Int(_) => false,
            RVal::Str(s) => s.iter().any(is_delim),
            RVal::List(l) => l.iter().any(|v| v.has_delim_str()),
            RVal::Dict(d) => d
                .iter()
                .any(|(k, v)| k.iter().any(is_delim) || v.has_delim_str()),
        }
    }
    pub fn has_dup_keys(&self) -> bool {
        match self {
            RVal::Int(_) | RVal::Str(_) => false,
            RVal::List(l) => l.iter().any(|v| v.has_dup_keys()),
            RVal::Dict(d) => {
                let mut keys: Vec<&Vec<u8>> = d.iter().map(|(k, _)| k).collect();
                keys.sort();
                keys.windows(2).any(|w| w[0] == w[1]) || d.iter().any(|(_, v)| v.has_dup_keys())
            }
        }
    }
    /// Dictionaries sorted bytewise by key (stable), recursively.
    pub fn canonicalised(&self) -> RVal {
        match self {
            RVal::List(l) => RVal::List(l.iter().map(|v| v.canonicalised()).collect()),
            RVal::Dict(d) => {
                let mut d: Vec<(Vec<u8>, RVal)> =
                    d.iter().map(|(k, v)| (k.clone(), v.canonicalised())).collect();
                d.sort_by(|a, b| a.0.cmp(&b.0));
                RVal::Dict(d)
            }
            v => v.clone(),
        }
    }
}

/// Canonical-form writer for one value *as given* (dictionary order as given; callers sort first if
/// they want canonical documents).
pub fn write(v: &RVal, out: &mut Vec<u8>) {
    match v {
        RVal::Int(i) => {
            out.push(b'i');
            out.extend_from_slice(fmt_i64(*i).as_bytes());
            out.push(b'e');
        }
        RVal::Str(s) => write_str(s, out),
        RVal::List(l) => {
            out.push(b'l');
            for x in l {
                write(x, out);
            }
            out.push(b'e');
        }
        RVal::Dict(d) => {
            out.push(b'd');
            for (k, x) in d {
                write_str(k, out);
                write(x, out);
            }
            out.push(b'e');
        }
    }
}

pub fn write_str(s: &[u8], out: &mut Vec<u8>) {
    out.extend_from_slice(fmt_u64(s.len() as u64).as_bytes());
    out.push(b':');
    out.extend_from_slice(s);
}

/// Decimal formatting written out by hand (independent of the code under test's use of to_string()).
pub fn fmt_u64(mut n: u64) -> String {
    if n == 0 {
        return "0".to_string();
    }
    let mut digits = vec![];
    while n > 0 {
        digits.push(b'0' + (n % 10) as u8);
        n /= 10;
    }
    digits.reverse();
    String::from_utf8(digits).unwrap()
}

pub fn fmt_i64(n: i64) -> String {
    if n < 0 {
        format!("-{}", fmt_u64(n.unsigned_abs()))
    } else {
        fmt_u64(n as u64)
    }
}

pub fn encode(v: &RVal) -> Vec<u8> {
    let mut out = vec![];
    write(v, &mut out);
    out
}

pub fn encode_canonical(v: &RVal) -> Vec<u8> {
    encode(&v.canonicalised())
}

#[derive(Clone, Debug, PartialEq, Eq)]
pub enum ParseErr {
    /// malformed according to the grammar
    Malformed(usize, &'static str),
    /// well-formed grammar but a number does not fit (integer outside i64 / length outside usize):
    /// outside the stated domain of C16
    OutOfDomain(usize),
}

pub struct Parser<'a> {
    pub data: &'a [u8],
    pub pos: usize,
}

impl<'a> Parser<'a> {
    pub fn new(data: &'a [u8]) -> Parser<'a> {
        Parser { data, pos: 0 }
    }

    fn peek(&self) -> Option<u8> {
        self.data.get(self.pos).copied()
    }

    /// Parse one value starting at pos. Returns value and leaves pos after it.
    pub fn value(&mut self) -> Result<RVal, ParseErr> {
        let start = self.pos;
        match self.peek() {
            None => Err(ParseErr::Malformed(start, "unexpected end of input")),
            Some(b'i') => {
                self.pos += 1;
                let neg = if self.peek() == Some(b'-') {
                    self.pos += 1;
                    true
                } else {
                    false
                };
                let ds = self.pos;
                while matches!(self.peek(), Some(b'0'..=b'9')) {
                    self.pos += 1;
                }
                let digits = &self.data[ds..self.pos];
                if digits.is_empty() {
                    return Err(ParseErr::Malformed(start, "integer without digits"));
                }
                if self.peek() != Some(b'e') {
                    return Err(ParseErr::Malformed(self.pos, "integer not terminated by e"));
                }
                self.pos += 1;
                if digits.len() > 1 && digits[0] == b'0' {
                    return Err(ParseErr::Malformed(start, "leading zero"));
                }
                if neg && digits == b"0" {
                    return Err(ParseErr::Malformed(start, "negative zero"));
                }
                // accumulate in i128
                let mut acc: i128 = 0;
                for d in digits {
                    acc = acc * 10 + (*d - b'0') as i128;
                    if acc > (1i128 << 70) {
                        return Err(ParseErr::OutOfDomain(start));
                    }
                }
                if neg {
                    acc = -acc;
                }
                if acc < i64::MIN as i128 || acc > i64::MAX as i128 {
                    return Err(ParseErr::OutOfDomain(start));
                }
                Ok(RVal::Int(acc as i64))
            }
            Some(b'0'..=b'9') => Ok(RVal::Str(self.string()?)),
            Some(b'l') => {
                self.pos += 1;
                let mut items = vec![];
                loop {
                    match self.peek() {
                        None => return Err(ParseErr::Malformed(self.pos, "unterminated list")),
                        Some(b'e') => {
                            self.pos += 1;
                            return Ok(RVal::List(items));
                        }
                        Some(_) => items.push(self.value()?),
                    }
                }
            }
            Some(b'd') => {
                self.pos += 1;
                let mut items = vec![];
                loop {
                    match self.peek() {
                        None => return Err(ParseErr::Malformed(self.pos, "unterminated dictionary")),
                        Some(b'e') => {
                            self.pos += 1;
                            return Ok(RVal::Dict(items));
                        }
                        Some(b'0'..=b'9') => {
                            let k = self.string()?;
                            match self.peek() {
                                None => {
                                    return Err(ParseErr::Malformed(self.pos, "unterminated dictionary"))
                                }
                                Some(b'e') => {
                                    return Err(ParseErr::Malformed(self.pos, "dictionary key without value"))
                                }
                                Some(_) => {}
                            }
                            let v = self.value()?;
                            items.push((k, v));
                        }
                        Some(_) => {
                            return Err(ParseErr::Malformed(self.pos, "dictionary key is not a string"))
                        }
                    }
                }
            }
            Some(_) => Err(ParseErr::Malformed(start, "unexpected byte")),
        }
    }

    fn string(&mut self) -> Result<Vec<u8>, ParseErr> {
        let start = self.pos;
        while matches!(self.peek(), Some(b'0'..=b'9')) {
            self.pos += 1;
        }
        let digits = &self.data[start..self.pos];
        if self.peek() != Some(b':') {
            return Err(ParseErr::Malformed(self.pos, "string length not followed by ':'"));
        }
        self.pos += 1;
        // a declared length beyond the rest of the input is malformed whatever its magnitude (no representability
        // question arises: the string simply is not there)
        let mut len: u128 = 0;
        for d in digits {
            len = len * 10 + (*d - b'0') as u128;
            if len > (self.data.len() as u128) {
                return Err(ParseErr::Malformed(start, "string longer than remaining input"));
            }
        }
        if len > (self.data.len() - self.pos) as u128 {
            return Err(ParseErr::Malformed(start, "string longer than remaining input"));
        }
        let len = len as usize;
        let s = self.data[self.pos..self.pos + len].to_vec();
        self.pos += len;
        Ok(s)
    }
}

/// A document = zero or more values.
pub fn parse_document(data: &[u8]) -> Result<Vec<RVal>, ParseErr> {
    let mut p = Parser::new(data);
    let mut out = vec![];
    while p.pos < data.len() {
        out.push(p.value()?);
    }
    Ok(out)
}

/// Like parse_document, with the byte span of every top-level value.
pub fn parse_document_spans(data: &[u8]) -> Result<Vec<(RVal, usize, usize)>, ParseErr> {
    let mut p = Parser::new(data);
    let mut out = vec![];
    while p.pos < data.len() {
        let s = p.pos;
        let v = p.value()?;
        out.push((v, s, p.pos));
    }
    Ok(out)
}

/// For a top-level dictionary starting at `start`, the span of the value of the first key equal to `key`.
pub fn top_level_value_span(data: &[u8], start: usize, key: &[u8]) -> Option<(usize, usize)> {
    let mut p = Parser::new(data);
    p.pos = start;
    if p.peek() != Some(b'd') {
        return None;
    }
    p.pos += 1;
    loop {
        match p.peek() {
            Some(b'e') | None => return None,
            _ => {}
        }
        let k = p.string().ok()?;
        let vs = p.pos;
        p.value().ok()?;
        if k == key {
            return Some((vs, p.pos));
        }
    }
}

#[cfg(test)]
mod tests {
    use super::*;
    #[test]
    fn basics() {
        assert_eq!(parse_document(b"i0e"), Ok(vec![RVal::Int(0)]));
        assert!(parse_document(b"i-0e").is_err());
        assert!(parse_document(b"i01e").is_err());
        assert!(parse_document(b"li1e").is_err());
        assert!(parse_document(b"0").is_err());
        assert_eq!(parse_document(b"0:"), Ok(vec![RVal::Str(vec![])]));
        assert_eq!(parse_document(b"01:a"), Ok(vec![RVal::Str(b"a".to_vec())]));
        assert_eq!(
            parse_document(b"d3:cow3:moo4:spam4:eggse"),
            Ok(vec![RVal::Dict(vec![
                (b"cow".to_vec(), RVal::s("moo")),
                (b"spam".to_vec(), RVal::s("eggs"))
            ])])
        );
        assert_eq!(encode(&RVal::Int(i64::MIN)), b"i-9223372036854775808e".to_vec());
        assert!(parse_document(b"d1:ae").is_err());
        assert!(parse_document(b"di1e1:ae").is_err());
        assert_eq!(parse_document(b""), Ok(vec![]));
    }
}

/// Spans (depth, start, end) of the values of every dictionary key equal to `key`, at any depth, in
/// document order. Depth 1 = a key of a top-level dictionary. Returns None if the document is malformed.
pub fn key_value_spans(data: &[u8], key: &[u8]) -> Option<Vec<(usize, usize, usize)>> {
    fn scan(p: &mut Parser, depth: usize, key: &[u8], out: &mut Vec<(usize, usize, usize)>) -> Option<()> {
        match p.data.get(p.pos).copied()? {
            b'l' => {
                p.pos += 1;
                loop {
                    if p.data.get(p.pos).copied()? == b'e' {
                        p.pos += 1;
                        return Some(());
                    }
                    scan(p, depth, key, out)?;
                }
            }
            b'd' => {
                p.pos += 1;
                loop {
                    if p.data.get(p.pos).copied()? == b'e' {
                        p.pos += 1;
                        return Some(());
                    }
                    let k = match p.value().ok()? {
                        RVal::Str(k) => k,
                        _ => return None,
                    };
                    let s = p.pos;
                    scan(p, depth + 1, key, out)?;
                    if k == key {
                        out.push((depth + 1, s, p.pos));
                    }
                }
            }
            _ => {
                p.value().ok()?;
                Some(())
            }
        }
    }
    let mut p = Parser::new(data);
    let mut out = vec![];
    while p.pos < data.len() {
        scan(&mut p, 0, key, &mut out)?;
    }
    out.sort_by_key(|(_, s, _)| *s);
    Some(out)
}

/// Writer with optional leading zeros in string lengths (legal, non-canonical). `lz` is consumed cyclically,
/// one entry per string written (keys included).
pub struct NcWriter<'a> {
    pub lz: &'a [u8],
    pub k: usize,
    pub out: Vec<u8>,
}

impl<'a> NcWriter<'a> {
    pub fn new(lz: &'a [u8]) -> NcWriter<'a> {
        NcWriter { lz, k: 0, out: vec![] }
    }
    pub fn str(&mut self, s: &[u8]) {
        if !self.lz.is_empty() {
            let z = self.lz[self.k % self.lz.len()] as usize;
            self.k += 1;
            for _ in 0..z {
                self.out.push(b'0');
            }
        }
        write_str(s, &mut self.out);
    }
    pub fn val(&mut self, v: &RVal) {
        match v {
            RVal::Int(_) => write(v, &mut self.out),
            RVal::Str(s) => self.str(s),
            RVal::List(l) => {
                self.out.push(b'l');
                for x in l {
                    self.val(x);
                }
                self.out.push(b'e');
            }
            RVal::Dict(d) => {
                self.out.push(b'd');
                for (k, x) in d {
                    self.str(k);
                    self.val(x);
                }
                self.out.push(b'e');
            }
        }
    }
}
