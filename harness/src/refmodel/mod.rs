pub mod bencode;
