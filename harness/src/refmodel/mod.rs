pub mod bencode;
pub mod geometry;
pub mod wire;
