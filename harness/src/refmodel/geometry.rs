//! Reference model of a torrent: content, pieces, files, and the .torrent document describing them.

use crate::refmodel::bencode::{self as rb, RVal};
use serde::{Deserialize, Serialize};

#[derive(Clone, Debug, Serialize, Deserialize, PartialEq)]
pub struct Geometry {
    pub piece_len: usize,
    /// (path, length); for the single-file form exactly one entry whose path is the name
    pub files: Vec<(String, usize)>,
    pub multi: bool,
    pub name: String,
    pub content_seed: u64,
}

#[derive(Clone, Debug)]
pub struct Torrent {
    pub geo: Geometry,
    pub announce: String,
    pub content: Vec<u8>,
    pub hashes: Vec<[u8; 20]>,
    /// multi-file form only: the info dictionary also carries a `length` key holding the sum of the file lengths
    /// (BEP3 says either `length` or `files`; some writers emit both)
    pub also_length: bool,
}

pub fn sha1(data: &[u8]) -> [u8; 20] {
    let mut h = sha1_smol::Sha1::new();
    h.update(data);
    h.digest().bytes()
}

pub fn hex_upper(h: &[u8]) -> String {
    let mut s = String::new();
    for b in h {
        s.push_str(&format!("{:02X}", b));
    }
    s
}

/// Deterministic pseudo-random content (splitmix64), so a case is a plain value.
pub fn content(seed: u64, len: usize) -> Vec<u8> {
    let mut out = Vec::with_capacity(len + 8);
    let mut x = seed.wrapping_add(0x9E3779B97F4A7C15);
    while out.len() < len {
        x = x.wrapping_add(0x9E3779B97F4A7C15);
        let mut z = x;
        z = (z ^ (z >> 30)).wrapping_mul(0xBF58476D1CE4E5B9);
        z = (z ^ (z >> 27)).wrapping_mul(0x94D049BB133111EB);
        z ^= z >> 31;
        out.extend_from_slice(&z.to_le_bytes());
    }
    out.truncate(len);
    out
}

impl Geometry {
    pub fn single(piece_len: usize, total: usize, seed: u64) -> Geometry {
        Geometry {
            piece_len,
            files: vec![("data.bin".to_string(), total)],
            multi: false,
            name: "data.bin".to_string(),
            content_seed: seed,
        }
    }
    pub fn total(&self) -> usize {
        self.files.iter().map(|(_, l)| *l).sum()
    }
    pub fn pieces_num(&self) -> usize {
        (self.total() + self.piece_len - 1) / self.piece_len
    }
    pub fn piece_range(&self, i: usize) -> (usize, usize) {
        let s = i * self.piece_len;
        let e = ((i + 1) * self.piece_len).min(self.total());
        (s, e)
    }
    pub fn piece_length(&self, i: usize) -> usize {
        let (s, e) = self.piece_range(i);
        e - s
    }
}

impl Torrent {
    pub fn new(geo: Geometry) -> Torrent {
        Torrent::with_announce(geo, "http://127.0.0.1:1/announce")
    }

    pub fn with_announce(geo: Geometry, announce: &str) -> Torrent {
        let content = content(geo.content_seed, geo.total());
        let hashes = (0..geo.pieces_num())
            .map(|i| {
                let (s, e) = geo.piece_range(i);
                sha1(&content[s..e])
            })
            .collect();
        Torrent { geo, announce: announce.to_string(), content, hashes, also_length: false }
    }

    pub fn piece(&self, i: usize) -> &[u8] {
        let (s, e) = self.geo.piece_range(i);
        &self.content[s..e]
    }

    pub fn info_rval(&self) -> RVal {
        let mut pieces = vec![];
        for h in &self.hashes {
            pieces.extend_from_slice(h);
        }
        let mut info = vec![
            (b"name".to_vec(), RVal::Str(self.geo.name.as_bytes().to_vec())),
            (b"piece length".to_vec(), RVal::Int(self.geo.piece_len as i64)),
            (b"pieces".to_vec(), RVal::Str(pieces)),
        ];
        if self.geo.multi {
            let files = self
                .geo
                .files
                .iter()
                .map(|(p, l)| {
                    RVal::Dict(vec![
                        (b"length".to_vec(), RVal::Int(*l as i64)),
                        (b"path".to_vec(), RVal::Str(p.as_bytes().to_vec())),
                    ])
                })
                .collect();
            info.push((b"files".to_vec(), RVal::List(files)));
            if self.also_length {
                info.push((b"length".to_vec(), RVal::Int(self.geo.total() as i64)));
            }
        } else {
            info.push((b"length".to_vec(), RVal::Int(self.geo.total() as i64)));
        }
        RVal::Dict(info).canonicalised()
    }

    pub fn doc_rval(&self) -> RVal {
        RVal::Dict(vec![
            (b"announce".to_vec(), RVal::Str(self.announce.as_bytes().to_vec())),
            (b"info".to_vec(), self.info_rval()),
        ])
    }

    pub fn to_bytes(&self) -> Vec<u8> {
        rb::encode(&self.doc_rval())
    }

    pub fn info_hash(&self) -> [u8; 20] {
        sha1(&rb::encode(&self.info_rval()))
    }

    pub fn metainfo(&self) -> Result<rdest::Metainfo, rdest::Error> {
        rdest::Metainfo::from_bencode(&self.to_bytes())
    }

    /// `<HEX-SHA1>.piece` name of piece i.
    pub fn piece_file_name(&self, i: usize) -> String {
        hex_upper(&self.hashes[i]) + ".piece"
    }

    /// Write every piece file into the current directory (what a finished download leaves behind).
    pub fn write_piece_files(&self) -> std::io::Result<()> {
        for i in 0..self.geo.pieces_num() {
            std::fs::write(self.piece_file_name(i), self.piece(i))?;
        }
        Ok(())
    }

    /// What an interrupted earlier run may leave behind: piece files of the right name and length whose content is
    /// damaged (torn write: the tail is zeroed). Which pieces get one is drawn from `seed`; returns (file name, content) of each.
    pub fn write_damaged_leftovers(&self, seed: u64) -> Vec<(String, Vec<u8>)> {
        let mut x = seed.wrapping_mul(0x9E37_79B9_7F4A_7C15) | 1;
        let mut v = vec![];
        for i in 0..self.geo.pieces_num() {
            x ^= x << 13;
            x ^= x >> 7;
            x ^= x << 17;
            if x % 3 != 0 {
                let mut d = self.piece(i).to_vec();
                let from = d.len() / 2;
                for b in d[from..].iter_mut() {
                    *b = if *b == 0 { 1 } else { 0 };
                }
                if std::fs::write(self.piece_file_name(i), &d).is_ok() {
                    v.push((self.piece_file_name(i), d));
                }
            }
        }
        v
    }

    /// Something un-writable sits where some piece files belong: a symbolic link to a directory (a disk that is full or
    /// a quota behave alike - the write fails, the name can still be unlinked). Returns the names.
    pub fn write_obstacles(&self, seed: u64) -> Vec<String> {
        let mut x = seed.wrapping_mul(0x9E37_79B9_7F4A_7C15) | 1;
        let mut v = vec![];
        let _ = std::fs::create_dir_all("obstacle.d");
        for i in 0..self.geo.pieces_num() {
            x ^= x << 13;
            x ^= x >> 7;
            x ^= x << 17;
            if x % 3 == 0 {
                let name = self.piece_file_name(i);
                if std::os::unix::fs::symlink("obstacle.d", &name).is_ok() {
                    v.push(name);
                }
            }
        }
        v
    }

    /// File offsets in the concatenated content: (path as the torrent names it, start, len)
    pub fn file_spans(&self) -> Vec<(String, usize, usize)> {
        let mut pos = 0;
        let mut v = vec![];
        for (p, l) in &self.geo.files {
            v.push((p.clone(), pos, *l));
            pos += l;
        }
        v
    }
}
