//! Independent reference model of the BEP3 peer wire protocol: a writer and a stream decoder.
//! Written from BEP3 and the text of C06/C07, not from rdest's frame.rs.

use serde::{Deserialize, Serialize};

pub const PSTR: &[u8; 19] = b"BitTorrent protocol";
pub const MAX_FRAME: usize = 65536;
pub const BLOCK: usize = 16384;

#[derive(Clone, Debug, PartialEq, Eq, Serialize, Deserialize)]
pub enum RFrame {
    Handshake {
        pstr: Vec<u8>,
        reserved: [u8; 8],
        info_hash: [u8; 20],
        peer_id: [u8; 20],
    },
    KeepAlive,
    Choke,
    Unchoke,
    Interested,
    NotInterested,
    Have(u32),
    Bitfield(Vec<u8>),
    Request(u32, u32, u32),
    Piece(u32, u32, Vec<u8>),
    Cancel(u32, u32, u32),
    Unknown(u8, Vec<u8>),
}

impl RFrame {
    pub fn handshake(info_hash: [u8; 20], peer_id: [u8; 20]) -> RFrame {
        RFrame::Handshake {
            pstr: PSTR.to_vec(),
            reserved: [0; 8],
            info_hash,
            peer_id,
        }
    }
    /// The form in which rdest can represent the frame: it does not keep a handshake's reserved bytes.
    pub fn norm(&self) -> RFrame {
        match self {
            RFrame::Handshake { pstr, info_hash, peer_id, .. } => RFrame::Handshake { pstr: pstr.clone(), reserved: [0; 8], info_hash: *info_hash, peer_id: *peer_id },
            f => f.clone(),
        }
    }
    pub fn kind(&self) -> &'static str {
        match self {
            RFrame::Handshake { .. } => "handshake",
            RFrame::KeepAlive => "keep-alive",
            RFrame::Choke => "choke",
            RFrame::Unchoke => "unchoke",
            RFrame::Interested => "interested",
            RFrame::NotInterested => "not-interested",
            RFrame::Have(_) => "have",
            RFrame::Bitfield(_) => "bitfield",
            RFrame::Request(..) => "request",
            RFrame::Piece(..) => "piece",
            RFrame::Cancel(..) => "cancel",
            RFrame::Unknown(..) => "unknown",
        }
    }
    pub fn short(&self) -> String {
        match self {
            RFrame::Piece(i, b, d) => format!("Piece({},{},<{} bytes>)", i, b, d.len()),
            RFrame::Handshake { info_hash, peer_id, pstr, .. } => format!(
                "Handshake(pstr={:?},hash={:02x}{:02x}..,id={:02x}{:02x}..)",
                String::from_utf8_lossy(pstr),
                info_hash[0],
                info_hash[1],
                peer_id[0],
                peer_id[1]
            ),
            RFrame::Unknown(id, b) => format!("Unknown(id={},<{} bytes>)", id, b.len()),
            f => format!("{:?}", f),
        }
    }
}

fn be(n: u32) -> [u8; 4] {
    [(n >> 24) as u8, (n >> 16) as u8, (n >> 8) as u8, n as u8]
}

fn rd(b: &[u8]) -> u32 {
    ((b[0] as u32) << 24) | ((b[1] as u32) << 16) | ((b[2] as u32) << 8) | (b[3] as u32)
}

fn msg(id: u8, body: &[u8]) -> Vec<u8> {
    let mut v = Vec::with_capacity(5 + body.len());
    v.extend_from_slice(&be(1 + body.len() as u32));
    v.push(id);
    v.extend_from_slice(body);
    v
}

pub fn encode(f: &RFrame) -> Vec<u8> {
    match f {
        RFrame::Handshake { pstr, reserved, info_hash, peer_id } => {
            let mut v = vec![pstr.len() as u8];
            v.extend_from_slice(pstr);
            v.extend_from_slice(reserved);
            v.extend_from_slice(info_hash);
            v.extend_from_slice(peer_id);
            v
        }
        RFrame::KeepAlive => vec![0, 0, 0, 0],
        RFrame::Choke => msg(0, &[]),
        RFrame::Unchoke => msg(1, &[]),
        RFrame::Interested => msg(2, &[]),
        RFrame::NotInterested => msg(3, &[]),
        RFrame::Have(i) => msg(4, &be(*i)),
        RFrame::Bitfield(b) => msg(5, b),
        RFrame::Request(i, b, l) => {
            let mut body = vec![];
            body.extend_from_slice(&be(*i));
            body.extend_from_slice(&be(*b));
            body.extend_from_slice(&be(*l));
            msg(6, &body)
        }
        RFrame::Piece(i, b, d) => {
            let mut body = vec![];
            body.extend_from_slice(&be(*i));
            body.extend_from_slice(&be(*b));
            body.extend_from_slice(d);
            msg(7, &body)
        }
        RFrame::Cancel(i, b, l) => {
            let mut body = vec![];
            body.extend_from_slice(&be(*i));
            body.extend_from_slice(&be(*b));
            body.extend_from_slice(&be(*l));
            msg(8, &body)
        }
        RFrame::Unknown(id, body) => msg(*id, body),
    }
}

/// Bit vector -> bitfield bytes: piece i is the (i mod 8)-th most significant bit of byte i/8.
pub fn bits_to_bytes(bits: &[bool]) -> Vec<u8> {
    let mut out = vec![0u8; (bits.len() + 7) / 8];
    for (i, b) in bits.iter().enumerate() {
        if *b {
            out[i / 8] |= 0x80u8 >> (i % 8);
        }
    }
    out
}

pub fn bytes_to_bits(bytes: &[u8], n: usize) -> Option<Vec<bool>> {
    if bytes.len() != (n + 7) / 8 {
        return None;
    }
    Some((0..n).map(|i| bytes[i / 8] & (0x80u8 >> (i % 8)) != 0).collect())
}

#[derive(Clone, Debug, PartialEq, Eq)]
pub enum Tail {
    /// all bytes consumed; the stream is at a message boundary
    Boundary,
    /// a message has started at `start`, is so far plausible, and is not complete
    Partial { start: usize },
    /// the message starting at `start` is invalid; the decoder must have reported an error by the time
    /// `due` bytes of the stream have arrived (a malformed length is decidable as soon as length and id are known:
    /// the property says it terminates the connection "instead of stalling it")
    Error { start: usize, due: usize, why: &'static str },
    /// a length-prefixed message with id 0x54 ('T'): indistinguishable from a handshake for a decoder that
    /// recognises handshakes by that byte; outside what the property's "unknown ids" is read to cover
    Ambiguous { start: usize },
}

#[derive(Clone, Debug)]
pub struct Decoded {
    /// frames with the stream offset just past each
    pub frames: Vec<(RFrame, usize)>,
    pub tail: Tail,
}

impl Decoded {
    /// Frames a correct decoder delivers (unknown ids are skipped).
    pub fn delivered(&self) -> Vec<RFrame> {
        self.frames
            .iter()
            .filter(|(f, _)| !matches!(f, RFrame::Unknown(..)))
            .map(|(f, _)| f.clone())
            .collect()
    }
}

/// Decode a peer->client byte stream prefix.
/// `strict_pstr`: when true a handshake is recognised only by the full 19-byte protocol string.
pub fn decode(data: &[u8]) -> Decoded {
    let mut frames = vec![];
    let mut pos = 0usize;
    loop {
        let rest = &data[pos..];
        if rest.is_empty() {
            return Decoded { frames, tail: Tail::Boundary };
        }
        // handshake: <19>"BitTorrent protocol"<8 reserved><20 hash><20 id>
        if rest[0] == 19 {
            let avail = rest.len().min(20);
            if rest[1..avail] == PSTR[..avail - 1] {
                if rest.len() < 68 {
                    return Decoded { frames, tail: Tail::Partial { start: pos } };
                }
                let mut reserved = [0u8; 8];
                reserved.copy_from_slice(&rest[20..28]);
                let mut info_hash = [0u8; 20];
                info_hash.copy_from_slice(&rest[28..48]);
                let mut peer_id = [0u8; 20];
                peer_id.copy_from_slice(&rest[48..68]);
                frames.push((
                    RFrame::Handshake { pstr: PSTR.to_vec(), reserved, info_hash, peer_id },
                    pos + 68,
                ));
                pos += 68;
                continue;
            }
            // first byte 19 but not the protocol string: as a length prefix this is >= 0x13000000
        }
        if rest.len() < 4 {
            return Decoded { frames, tail: Tail::Partial { start: pos } };
        }
        let len = rd(rest) as usize;
        if len == 0 {
            frames.push((RFrame::KeepAlive, pos + 4));
            pos += 4;
            continue;
        }
        if rest.len() < 5 {
            if len > MAX_FRAME {
                // already certain to be an error; due once the id byte could have been seen
                return Decoded {
                    frames,
                    tail: Tail::Error { start: pos, due: pos + 5, why: "oversized frame" },
                };
            }
            return Decoded { frames, tail: Tail::Partial { start: pos } };
        }
        let id = rest[4];
        if id == 0x54 {
            return Decoded { frames, tail: Tail::Ambiguous { start: pos } };
        }
        if len > MAX_FRAME {
            return Decoded {
                frames,
                tail: Tail::Error { start: pos, due: pos + 5, why: "oversized frame" },
            };
        }
        let fixed: Option<usize> = match id {
            0 | 1 | 2 | 3 => Some(1),
            4 => Some(5),
            6 | 8 => Some(13),
            _ => None,
        };
        if let Some(want) = fixed {
            if len != want {
                return Decoded {
                    frames,
                    tail: Tail::Error { start: pos, due: pos + 5, why: "wrong length for fixed-size message" },
                };
            }
        }
        if id == 7 && len < 9 {
            return Decoded {
                frames,
                tail: Tail::Error { start: pos, due: pos + 5, why: "piece message shorter than its header" },
            };
        }
        if rest.len() < 4 + len {
            return Decoded { frames, tail: Tail::Partial { start: pos } };
        }
        let body = &rest[5..4 + len];
        let f = match id {
            0 => RFrame::Choke,
            1 => RFrame::Unchoke,
            2 => RFrame::Interested,
            3 => RFrame::NotInterested,
            4 => RFrame::Have(rd(body)),
            5 => RFrame::Bitfield(body.to_vec()),
            6 => RFrame::Request(rd(&body[0..4]), rd(&body[4..8]), rd(&body[8..12])),
            7 => RFrame::Piece(rd(&body[0..4]), rd(&body[4..8]), body[8..].to_vec()),
            8 => RFrame::Cancel(rd(&body[0..4]), rd(&body[4..8]), rd(&body[8..12])),
            x => RFrame::Unknown(x, body.to_vec()),
        };
        frames.push((f, pos + 4 + len));
        pos += 4 + len;
    }
}

/// The reference tiling of a piece into block requests.
pub fn tiling(piece_len: usize) -> Vec<(u32, u32)> {
    let mut v = vec![];
    let mut off = 0usize;
    while off < piece_len {
        let l = BLOCK.min(piece_len - off);
        v.push((off as u32, l as u32));
        off += l;
    }
    v
}

#[cfg(test)]
mod tests {
    use super::*;
    #[test]
    fn bep3_examples() {
        assert_eq!(encode(&RFrame::Choke), vec![0, 0, 0, 1, 0]);
        assert_eq!(encode(&RFrame::Have(0x01020304)), vec![0, 0, 0, 5, 4, 1, 2, 3, 4]);
        assert_eq!(
            encode(&RFrame::Request(1, 2, 16384)),
            vec![0, 0, 0, 13, 6, 0, 0, 0, 1, 0, 0, 0, 2, 0, 0, 0x40, 0]
        );
        let h = encode(&RFrame::handshake([7; 20], [9; 20]));
        assert_eq!(h.len(), 68);
        assert_eq!(h[0], 19);
        assert_eq!(&h[1..20], PSTR);
        let mut s = h.clone();
        s.extend_from_slice(&encode(&RFrame::Piece(3, 4, vec![1, 2, 3])));
        s.extend_from_slice(&[0, 0, 0, 2, 20, 0]);
        s.extend_from_slice(&[0, 0, 0, 0]);
        let d = decode(&s);
        assert_eq!(d.tail, Tail::Boundary);
        assert_eq!(d.frames.len(), 4);
        assert_eq!(d.delivered().len(), 3);
        assert_eq!(bits_to_bytes(&[true, false, false, false, false, false, false, false, true]), vec![0x80, 0x80]);
        assert_eq!(tiling(16385), vec![(0, 16384), (16384, 1)]);
        assert_eq!(tiling(32768), vec![(0, 16384), (16384, 16384)]);
        assert!(matches!(decode(&[0, 0, 0, 2, 0, 0]).tail, Tail::Error { .. }));
        assert!(matches!(decode(&[0, 1, 0, 1, 9]).tail, Tail::Error { .. }));
        assert!(matches!(decode(&[0, 0, 0, 5, 4, 1]).tail, Tail::Partial { .. }));
    }
}
