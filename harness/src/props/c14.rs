//! C14 — Upload slots are bounded and follow the choking policy (command-level stepping of the real manager).

use crate::engine::*;
use crate::gen::idx;
use crate::refmodel::geometry::*;
use crate::rt;
use proptest::collection::vec;
use proptest::prelude::*;
use rdest::verif::*;
use serde::{Deserialize, Serialize};
use std::collections::BTreeMap;

#[derive(Clone, Debug, Serialize, Deserialize)]
pub enum Op {
    Add,
    Bitfield(u16),
    Interested(u16),
    NotInterested(u16),
    Stats(u16, u32, u32),
    /// give every connected peer rates (so the next rotation is carried out)
    StatsAll(u64),
    Rotate,
    Leave(u16),
    /// a bitfield arrives from every connected peer
    BitfieldAll,
    /// every connected peer whose bit in the mask is set declares interest
    InterestedMany(u32),
}

#[derive(Clone, Debug, Serialize, Deserialize)]
pub struct Case {
    /// still downloading, but no piece is Missing any more (every remaining piece is Reserved): not a seeder
    #[serde(default)]
    pub late_leech: bool,
    pub seeding: bool,
    pub initial_peers: u8,
    pub ops: Vec<Op>,
}

fn rate() -> BoxedStrategy<u32> {
    prop_oneof![3 => 0u32..6, 2 => prop::sample::select(vec![0u32, 100, 100, 100, 5000, u32::MAX]), 1 => any::<u32>()].boxed()
}

fn strategy() -> BoxedStrategy<Case> {
    let op = prop_oneof![
        3 => Just(Op::Add),
        5 => any::<u16>().prop_map(Op::Bitfield),
        5 => any::<u16>().prop_map(Op::Interested),
        2 => any::<u16>().prop_map(Op::NotInterested),
        2 => (any::<u16>(), rate(), rate()).prop_map(|(p, d, u)| Op::Stats(p, d, u)),
        3 => any::<u64>().prop_map(Op::StatsAll),
        4 => Just(Op::Rotate),
        1 => any::<u16>().prop_map(Op::Leave),
        1 => Just(Op::BitfieldAll),
        2 => prop_oneof![Just(u32::MAX), any::<u32>()].prop_map(Op::InterestedMany),
    ];
    (prop_oneof![2 => Just((false, false)), 2 => Just((true, false)), 1 => Just((false, true))], prop_oneof![6 => Just(0u8), 6 => 0u8..8, 6 => 10u8..16, 6 => 12u8..25, 1 => prop::sample::select(vec![44u8, 45, 46, 64, 100, 150, 200, 255])], vec(op, 0..120), vec(any::<u16>(), 8..32), any::<u64>())
        .prop_map(|((seeding, late_leech), initial_peers, ops, few, rseed)| {
            let mut ops = ops;
            if initial_peers >= 44 {
                // many peers, every one with a measured rate, one or two dozen interested (most of the best-rated ones
                // are not): the slots have to be found far down the ranking
                let mut pre = vec![Op::StatsAll(rseed)];
                pre.extend(few.iter().map(|i| Op::Interested(*i)));
                pre.push(Op::Rotate);
                pre.push(Op::StatsAll(rseed.rotate_left(17)));
                pre.push(Op::Rotate);
                pre.extend(ops);
                ops = pre;
            }
            Case { late_leech, seeding, initial_peers, ops }
        })
        .boxed()
}

fn brief(ps: &Vec<VerifPeerSnapshot>, seeding: bool) -> String {
    ps.iter()
        .map(|p| {
            format!(
                "{}:{}{}{}r{}",
                p.addr.trim_end_matches(":6881").trim_start_matches("10.1."),
                if p.am_choked { "c" } else { "u" },
                if p.interested { "I" } else { "-" },
                if p.optimistic_unchoke { "o" } else { "" },
                if seeding { p.download_rate.unwrap_or(0) } else { p.uploaded_rate.unwrap_or(0) }
            )
        })
        .collect::<Vec<_>>()
        .join(" ")
}

struct PeerView {
    /// fold of what the peer was told about our choking it
    told_choked: bool,
}

pub fn check(c: &Case) -> Outcome {
    let c = c.clone();
    match catch(move || rt::block_on(run_case(c))) {
        Ok(o) => o,
        Err(p) => {
            let mut o = Outcome::new();
            o.fail(panic_signature(&p), format!("manager panicked: {}", p));
            o
        }
    }
}

async fn run_case(c: Case) -> Outcome {
    let mut o = Outcome::new();
    const NP: usize = 4;
    let t = Torrent::new(Geometry::single(1, NP, 3));
    let m = t.metainfo().expect("metainfo");
    let mut s = rdest::Session::new(m, *b"-VF0001-000000000000");
    if c.seeding {
        for i in 0..NP {
            s.verif_set_status(i, Status::Have);
        }
    }
    if c.late_leech {
        for i in 0..NP {
            s.verif_set_status(i, if i % 2 == 0 { Status::Have } else { Status::Reserved(1) });
        }
    }
    let mut rx = s.verif_subscribe();
    // the rates each peer's task last reported (download, upload): "measured rate" is judged by these, not by what the
    // manager chose to keep
    let mut reported: BTreeMap<String, (u32, u32)> = BTreeMap::new();
    let mut peers: BTreeMap<String, PeerView> = BTreeMap::new();
    let mut next_id = 0usize;
    let mut bitfields_before_first_rotation = 0usize;
    let mut rotated = false;
    let mut steps = 0usize;

    macro_rules! add_peer {
        () => {{
            if peers.len() < 300 {
                let addr = format!("10.1.{}.{}:6881", next_id / 200, next_id % 200 + 1);
                next_id += 1;
                s.verif_add_peer(&addr, None);
                peers.insert(addr, PeerView { told_choked: true });
            }
        }};
    }
    for _ in 0..c.initial_peers {
        add_peer!();
    }

    let pick = |peers: &BTreeMap<String, PeerView>, i: u16| -> Option<String> {
        if peers.is_empty() {
            None
        } else {
            peers.keys().nth(idx(i, peers.len())).cloned()
        }
    };

    for (k, op) in c.ops.iter().enumerate() {
        steps += 1;
        let mut rotation_done: Option<(Vec<VerifPeerSnapshot>, Vec<String>)> = None;
        match op {
            Op::Add => add_peer!(),
            Op::Bitfield(i) => {
                if let Some(addr) = pick(&peers, *i) {
                    let (tx, mut rxr) = tokio::sync::oneshot::channel();
                    // the peer advertises everything
                    let bf = Bitfield::from_vec(&vec![true; NP]);
                    let r = s.verif_handle_peer_cmd(PeerCmd::RecvBitfield { addr: addr.clone(), bitfield: bf, resp_ch: tx }).await;
                    if let Err(e) = r {
                        o.fail("manager-error", format!("RecvBitfield failed: {}", e));
                    }
                    if let Ok(BitfieldCmd::SendState { with_am_unchoked, .. }) = rxr.try_recv() {
                        if with_am_unchoked {
                            peers.get_mut(&addr).unwrap().told_choked = false;
                        }
                    }
                    if !rotated {
                        bitfields_before_first_rotation += 1;
                    }
                }
            }
            Op::BitfieldAll => {
                for addr in peers.keys().cloned().collect::<Vec<_>>() {
                    let (tx, mut rxr) = tokio::sync::oneshot::channel();
                    let bf = Bitfield::from_vec(&vec![true; NP]);
                    let _ = s.verif_handle_peer_cmd(PeerCmd::RecvBitfield { addr: addr.clone(), bitfield: bf, resp_ch: tx }).await;
                    if let Ok(BitfieldCmd::SendState { with_am_unchoked, .. }) = rxr.try_recv() {
                        if with_am_unchoked {
                            peers.get_mut(&addr).unwrap().told_choked = false;
                        }
                    }
                    if !rotated {
                        bitfields_before_first_rotation += 1;
                    }
                }
            }
            Op::InterestedMany(mask) => {
                for (n, addr) in peers.keys().cloned().collect::<Vec<_>>().into_iter().enumerate() {
                    if mask & (1 << (n % 32)) != 0 {
                        let _ = s.verif_handle_peer_cmd(PeerCmd::RecvInterested { addr }).await;
                    }
                }
            }
            Op::Interested(i) => {
                if let Some(addr) = pick(&peers, *i) {
                    let _ = s.verif_handle_peer_cmd(PeerCmd::RecvInterested { addr }).await;
                }
            }
            Op::NotInterested(i) => {
                if let Some(addr) = pick(&peers, *i) {
                    let (tx, mut rxr) = tokio::sync::oneshot::channel();
                    let _ = s.verif_handle_peer_cmd(PeerCmd::RecvNotInterested { addr: addr.clone(), resp_ch: tx }).await;
                    if let Ok(NotInterestedCmd::PrepareKill) = rxr.try_recv() {
                        // the connection task ends and reports KillReq
                        s.verif_kill_peer(&addr).await;
                        peers.remove(&addr);
                    }
                }
            }
            Op::Stats(i, d, u) => {
                if let Some(addr) = pick(&peers, *i) {
                    reported.insert(addr.clone(), (*d, *u));
                    let _ = s
                        .verif_handle_peer_cmd(PeerCmd::SyncStats { addr, downloaded_rate: Some(*d), uploaded_rate: Some(*u), unexpected_blocks: (*d as usize ^ *u as usize) % 3 })
                        .await;
                }
            }
            Op::StatsAll(seed) => {
                let mut x = *seed | 1;
                for addr in peers.keys().cloned().collect::<Vec<_>>() {
                    x ^= x << 13;
                    x ^= x >> 7;
                    x ^= x << 17;
                    // few distinct values => ties
                    let d = (x % 4) as u32 * 100;
                    let u = ((x >> 8) % 4) as u32 * 100;
                    reported.insert(addr.clone(), (d, u));
                    let _ = s
                        .verif_handle_peer_cmd(PeerCmd::SyncStats { addr, downloaded_rate: Some(d), uploaded_rate: Some(u), unexpected_blocks: ((x >> 20) % 4 == 0) as usize })
                        .await;
                }
            }
            Op::Rotate => {
                let before = s.verif_snapshot();
                let all_rates = before.peers.iter().all(|p| p.download_rate.is_some() && p.uploaded_rate.is_some());
                if let Err(e) = s.verif_rotate().await {
                    o.fail("rotation-error", format!("rotation failed: {}", e));
                }
                rotated = true;
                let mut fresh_opt = vec![];
                if all_rates {
                    let after = s.verif_snapshot();
                    for p in &after.peers {
                        let was = before.peers.iter().find(|b| b.addr == p.addr).unwrap();
                        // freshly chosen optimistic peer: only in an optimistic round, taken from the choked peers
                        // (a peer may carry a stale optimistic flag from an earlier round; it is a regular holder then)
                        if after.round == 0 && p.optimistic_unchoke && !p.am_choked && was.am_choked {
                            fresh_opt.push(p.addr.clone());
                        }
                    }
                    rotation_done = Some((before.peers.clone(), fresh_opt));
                    o.class("rotation-carried-out");
                    if after.round == 0 {
                        o.class("optimistic-round");
                    }
                } else {
                    o.class("rotation-skipped-missing-rates");
                }
            }
            Op::Leave(i) => {
                if let Some(addr) = pick(&peers, *i) {
                    s.verif_kill_peer(&addr).await;
                    peers.remove(&addr);
                    reported.remove(&addr);
                }
            }
        }
        // broadcast: fold what each peer is told
        while let Ok(cmd) = rx.try_recv() {
            if let BroadCmd::SendOwnState { am_choked_map } = cmd {
                if std::env::var("VERIF_DEBUG").is_ok() {
                    eprintln!("step {} {:?}: map {:?}", k, op, am_choked_map);
                }
                for (addr, choked) in am_choked_map {
                    if let Some(p) = peers.get_mut(&addr) {
                        p.told_choked = choked;
                    }
                }
            }
        }
        let snap = s.verif_snapshot();
        // B1
        let unchoked = snap.peers.iter().filter(|p| !p.am_choked).count();
        let unchoked_regular = snap.peers.iter().filter(|p| !p.am_choked && !p.optimistic_unchoke).count();
        if unchoked > 11 {
            o.fail("more-than-11-unchoked", format!("after step {} ({:?}): {} peers unchoked", k, op, unchoked));
        }
        if unchoked_regular > 10 {
            o.fail("more-than-10-regular-unchoked", format!("after step {} ({:?}): {} non-optimistic peers unchoked", k, op, unchoked_regular));
        }
        if unchoked >= 10 {
            o.class("slots-full");
        }
        // B3
        for p in &snap.peers {
            if let Some(v) = peers.get(&p.addr) {
                if v.told_choked != p.am_choked {
                    o.fail(
                        "peer-view-differs-from-am-choked",
                        format!("after step {} ({:?}): peer {} was told choked={} but the manager has am_choked={}", k, op, p.addr, v.told_choked, p.am_choked),
                    );
                }
            }
        }
        // B2
        if let Some((_before, fresh)) = rotation_done {
            let rate_of = |p: &VerifPeerSnapshot| match reported.get(&p.addr) {
                Some((d, u)) => {
                    if c.seeding {
                        *d
                    } else {
                        *u
                    }
                }
                None => {
                    if c.seeding {
                        p.download_rate.unwrap_or(0)
                    } else {
                        p.uploaded_rate.unwrap_or(0)
                    }
                }
            };
            let holders: Vec<&VerifPeerSnapshot> = snap.peers.iter().filter(|p| !p.am_choked && !fresh.contains(&p.addr)).collect();
            for h in &holders {
                if !h.interested {
                    o.fail("slot-held-by-uninterested-peer", format!("after rotation (step {}): {} is unchoked in a regular slot but not interested", k, h.addr));
                }
            }
            let interested_n = snap.peers.iter().filter(|p| p.interested).count();
            let mut tie_across_cut = false;
            for p in snap.peers.iter().filter(|p| p.am_choked && p.interested) {
                for h in &holders {
                    if rate_of(p) > rate_of(h) {
                        o.fail(
                            "better-interested-peer-left-choked",
                            format!("after rotation (step {}): {} (rate {}) is choked and interested while {} (rate {}) holds a slot", k, p.addr, rate_of(p), h.addr, rate_of(h)),
                        );
                    }
                    if rate_of(p) == rate_of(h) {
                        tie_across_cut = true;
                    }
                }
            }
            for p in snap.peers.iter().filter(|p| !p.interested && !p.am_choked && !p.optimistic_unchoke) {
                o.fail("uninterested-peer-unchoked-after-rotation", format!("after rotation (step {}): {} lost interest but stays unchoked", k, p.addr));
            }
            if interested_n > 10 && tie_across_cut {
                o.class("rotation->10-interested-with-tie-across-cut");
            }
            if interested_n > 10 {
                o.class("rotation->10-interested");
            }
        }
    }
    o.class_if(bitfields_before_first_rotation >= 12, ">=12-bitfields-before-first-rotation");
    o.class_if(c.seeding, "seeding");
    o.class_if(c.initial_peers >= 44, ">=44-peers");
    o.class_if(c.late_leech, "late-leeching-nothing-missing");
    o.nontrivial = o.classes.contains(&">=12-bitfields-before-first-rotation") || o.classes.contains(&"rotation->10-interested-with-tie-across-cut");
    let _ = steps;
    o
}


// ------------------------------------------------------------------ wire-level variant (frame translation)

#[derive(Clone, Debug, Serialize, Deserialize)]
pub enum WOp {
    Join,
    Interested(u16),
    NotInterested(u16),
    Rotate,
    Leave(u16),
}

#[derive(Clone, Debug, Serialize, Deserialize)]
pub struct WCase {
    pub initial: u8,
    pub ops: Vec<WOp>,
    pub seed: u64,
}

fn wire_strategy() -> BoxedStrategy<WCase> {
    let op = prop_oneof![
        2 => Just(WOp::Join),
        5 => any::<u16>().prop_map(WOp::Interested),
        2 => any::<u16>().prop_map(WOp::NotInterested),
        4 => Just(WOp::Rotate),
        1 => any::<u16>().prop_map(WOp::Leave),
    ];
    (prop_oneof![0u8..6, 9u8..15], vec(op, 0..25), any::<u64>()).prop_map(|(initial, ops, seed)| WCase { initial, ops, seed }).boxed()
}

pub fn check_wire(c: &WCase) -> Outcome {
    use crate::net::Net;
    use crate::refmodel::wire::RFrame;
    use crate::swarm::{self, World};
    let mut o = Outcome::new();
    fresh_cwd();
    let t = Torrent::new(Geometry::single(4, 16, c.seed));
    let c2 = c.clone();
    let t2 = t.clone();
    let res = swarm::run(c.seed, &t, move |w: &mut World| {
        Box::pin(async move {
            let c = c2;
            let mut net = Net::new(&t2);
            let mut fails: Vec<(String, String)> = vec![];
            let mut classes: Vec<&'static str> = vec![];
            let mut told: Vec<bool> = vec![]; // per peer: last Choke/Unchoke frame read (true = choked)
            let mut seen: Vec<usize> = vec![];
            let mut ops: Vec<WOp> = (0..c.initial).map(|_| WOp::Join).collect();
            ops.extend(c.ops.iter().cloned());
            for (k, op) in ops.iter().enumerate() {
                if w.fatal().is_some() || !fails.is_empty() {
                    break;
                }
                let live: Vec<usize> = (0..net.peers.len()).filter(|p| net.alive(w, *p)).collect();
                let pick = |i: u16| if live.is_empty() { None } else { Some(live[idx(i, live.len())]) };
                match op {
                    WOp::Join => {
                        if live.len() < 16 {
                            let p = net.connect(w, false);
                            net.handshake(w, p);
                            net.bitfield(w, p, &[true, true, true, true]);
                            told.push(true);
                            seen.push(0);
                        }
                    }
                    WOp::Interested(i) => {
                        if let Some(p) = pick(*i) {
                            net.interested(w, p, true);
                        }
                    }
                    WOp::NotInterested(i) => {
                        if let Some(p) = pick(*i) {
                            net.interested(w, p, false);
                        }
                    }
                    WOp::Leave(i) => {
                        if let Some(p) = pick(*i) {
                            net.disconnect(w, p);
                        }
                    }
                    WOp::Rotate => {
                        w.advance_by(std::time::Duration::from_secs(21)).await;
                        net.fold(w);
                        let r = swarm::CatchUnwind(Box::pin(w.session.verif_rotate())).await;
                        match r {
                            Ok(Ok(())) => classes.push("rotation"),
                            Ok(Err(e)) => fails.push(("rotation-error".into(), format!("{}", e))),
                            Err(pn) => fails.push(("rotation-panic".into(), pn)),
                        }
                    }
                }
                net.observe(w).await;
                if w.fatal().is_some() {
                    break;
                }
                for (pi, rp) in net.peers.iter().enumerate() {
                    for (_, f) in &rp.log[seen[pi]..] {
                        match f {
                            RFrame::Choke => {
                                told[pi] = true;
                                classes.push("choke-frame");
                            }
                            RFrame::Unchoke => told[pi] = false,
                            _ => {}
                        }
                    }
                    seen[pi] = rp.log.len();
                }
                let snap = w.snapshot();
                let unchoked = snap.peers.iter().filter(|p| !p.am_choked).count();
                let regular = snap.peers.iter().filter(|p| !p.am_choked && !p.optimistic_unchoke).count();
                if unchoked > 11 || regular > 10 {
                    fails.push(("more-than-10+1-unchoked".into(), format!("after op {} {:?}: {} unchoked, {} of them regular", k, op, unchoked, regular)));
                }
                if unchoked >= 10 {
                    classes.push("slots-full");
                }
                for ps in &snap.peers {
                    if let Some(pi) = net.peers.iter().position(|rp| rp.addr == ps.addr) {
                        if net.alive(w, pi) && told[pi] != ps.am_choked {
                            fails.push((
                                "choke-frames-differ-from-am-choked".into(),
                                format!("after op {} {:?}: by the Choke/Unchoke frames it received peer {} is {}, the manager has am_choked={}", k, op, ps.addr, if told[pi] { "choked" } else { "unchoked" }, ps.am_choked),
                            ));
                        }
                    }
                }
            }
            (fails, classes, w.fatal(), net.peers.len())
        })
    });
    match res {
        Err(p) => o.fail(panic_signature(&p), format!("runtime panic: {}", p)),
        Ok((fails, classes, fatal, npeers)) => {
            for cl in classes {
                o.class(cl);
            }
            o.class_if(npeers >= 12, ">=12-peers");
            for (s, d) in fails {
                o.fail(s, d);
            }
            if let Some((s, d)) = fatal {
                o.fail(s, d);
            }
        }
    }
    o.nontrivial = o.classes.contains(&">=12-peers") && o.classes.contains(&"rotation");
    o
}

pub fn def() -> PropDef {
    PropDef {
        id: "C14",
        rule: "(stats reports carry an `unexpected blocks` count of 0-2; the measured rate is what the peer's task last reported, whatever the manager kept) (4 % of the command cases start with 44-255 peers, all with measured rates, 8-31 of them interested, and two rotations) sub commands: a history of up to 120 manager commands {peer added, bitfield arrives, interested, not-interested, stats(rate_down, rate_up) with ties, stats for all, rotate, peer leaves} over 0-25 peers in leeching or seeding mode, each passed to the real handle_peer_cmd / timeout_change_conn_state (hooks). Oracle after every step: <= 11 peers unchoked, <= 10 non-optimistic unchoked; the fold of what each peer was told (with_am_unchoked replies, am_choked_map broadcasts) equals am_choked; after every rotation that is carried out: regular slot holders are interested, no choked interested peer has a strictly higher rate (upload rate when leeching, download rate when seeding, as the manager documents) than a holder nor is left choked while slots are free, peers without interest are choked (optimistic one excepted). Sub wire: up to 16 real connections on the swarm runtime (handshake, bitfield, interest changes, leaves, the real rotation after 21 virtual seconds): the fold of the Choke/Unchoke frames each peer actually received equals am_choked, and the slot bounds hold. Non-trivial (commands) = >= 12 bitfields before the first rotation, or a rotation with > 10 interested peers and a rate tie across the cut; distinct by hash of the case.",
        assumptions: &[
            "every command used can be emitted by a connection task at any time (RecvBitfield, RecvInterested, RecvNotInterested, SyncStats, KillReq); PrepareKill replies are followed by the peer's removal as the task would do",
            "which measured rate ranks peers (uploaded while leeching, downloaded while seeding) is taken from the manager's own documented choice",
        ],
        subs: vec![Sub {
            name: "commands",
            cases: |t| t.pick(100_000, 1_500_000),
            run: |ctx| run_proptest(ctx, "commands", strategy(), check),
            replay: |v| replay_case::<Case>(v, check),
            min_class: &[("rotation-carried-out", 0.3), ("optimistic-round", 0.1), (">=12-bitfields-before-first-rotation", 0.02), ("rotation->10-interested", 0.01), ("seeding", 0.2), ("late-leeching-nothing-missing", 0.1), (">=44-peers", 0.015)],
        },
        Sub {
            name: "wire",
            cases: |t| t.pick(1_500, 30_000),
            run: |ctx| run_proptest(ctx, "wire", wire_strategy(), check_wire),
            replay: |v| replay_case::<WCase>(v, check_wire),
            min_class: &[("rotation", 0.4), (">=12-peers", 0.15), ("choke-frame", 0.1), ("slots-full", 0.2)],
        }],
    }
}
