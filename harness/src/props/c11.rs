//! C11 — The client never advertises a piece it has not verified.

use crate::engine::*;
use crate::gen::idx;
use crate::net::Net;
use crate::refmodel::geometry::*;
use crate::refmodel::wire::{self, RFrame};
use crate::swarm::{self, World};
use proptest::collection::vec;
use proptest::prelude::*;
use serde::{Deserialize, Serialize};
use std::collections::BTreeSet;

#[derive(Clone, Debug, Serialize, Deserialize)]
pub enum Op {
    SupplierJoin,
    /// a supplier answers its oldest outstanding request correctly
    Deliver(u16),
    DeliverCorrupt(u16),
    /// a new observer connects and sends its handshake; if `with_delivery`, a supplier answers a request in the same
    /// barrier so that the Init and a completion race
    ObserverJoin { outgoing: bool, with_delivery: bool },
    /// an outgoing connection (the client dialled): the client sends its handshake and bitfield at once, the remote's
    /// own handshake arrives only later (op ObsHandshake)
    ObserverJoinSilent,
    ObsHandshake(u16),
    ObsChoke(u16),
    ObsUnchoke(u16),
    ObsDisconnect(u16),
    /// a supplier chokes the client (dropping the requests it has queued) / unchokes it again / announces a piece again
    SupChoke(u16),
    SupUnchoke(u16),
    SupHave(u16, u16),
    /// this many correct deliveries in a row (one barrier each)
    DeliverMany(u8),
    /// an observer's connection task is not scheduled while this many pieces complete (it is blocked, e.g. in a write
    /// to a remote that does not read); then it runs again
    ObsLate(u16, u8),
}

#[derive(Clone, Debug, Serialize, Deserialize)]
pub struct Case {
    pub pieces: usize,
    pub piece_len: usize,
    pub ops: Vec<Op>,
    pub seed: u64,
}

fn strategy() -> BoxedStrategy<Case> {
    let op = prop_oneof![
        1 => Just(Op::SupplierJoin),
        8 => any::<u16>().prop_map(Op::Deliver),
        1 => any::<u16>().prop_map(Op::DeliverCorrupt),
        2 => (any::<bool>(), any::<bool>()).prop_map(|(outgoing, with_delivery)| Op::ObserverJoin { outgoing, with_delivery }),
        1 => Just(Op::ObserverJoinSilent),
        2 => any::<u16>().prop_map(Op::ObsHandshake),
        2 => any::<u16>().prop_map(Op::ObsChoke),
        2 => any::<u16>().prop_map(Op::ObsUnchoke),
        1 => any::<u16>().prop_map(Op::ObsDisconnect),
        2 => any::<u16>().prop_map(Op::SupChoke),
        3 => any::<u16>().prop_map(Op::SupUnchoke),
        1 => (any::<u16>(), any::<u16>()).prop_map(|(a, b)| Op::SupHave(a, b)),
        1 => (100u8..200).prop_map(Op::DeliverMany),
        2 => (any::<u16>(), prop_oneof![3 => 2u8..16, 2 => prop::sample::select(vec![15u8, 16, 17, 18, 30, 31]), 1 => prop::sample::select(vec![32u8, 33, 34, 40, 64])]).prop_map(|(o, k)| Op::ObsLate(o, k)),
    ];
    (prop_oneof![12 => 2usize..=20, 2 => 130usize..=170], prop_oneof![2 => Just(1usize), 2 => 1usize..=40, 3 => Just(20000usize)], vec(op, 0..60), any::<u64>())
        .prop_map(|(pieces, piece_len, ops, seed)| {
            // many pieces only with tiny pieces
            let piece_len = if pieces > 20 { 1 + piece_len % 4 } else { piece_len };
            Case { pieces: if piece_len > 1000 { pieces.min(5) } else { pieces }, piece_len, ops, seed }
        })
        .boxed()
}

/// Decoder for the coverage-guided campaign (fuzz target fz_hist).
pub fn case_from_bytes(data: &[u8]) -> Case {
    let mut r = crate::gen::ByteReader::new(data);
    let pieces = 2 + r.below(19);
    let piece_len = match r.below(4) {
        0 => 1,
        1 | 2 => 1 + r.below(40),
        _ => 20000,
    };
    let seed = r.u16() as u64;
    let mut ops = vec![];
    while !r.done() && ops.len() < 90 {
        let op = match r.below(24) {
            0 => Op::SupplierJoin,
            1..=8 => Op::Deliver(r.ix()),
            9 => Op::DeliverCorrupt(r.ix()),
            10 | 11 => Op::ObserverJoin { outgoing: r.bool(), with_delivery: r.bool() },
            12 => Op::ObserverJoinSilent,
            13 | 14 => Op::ObsHandshake(r.ix()),
            15 | 16 => Op::ObsChoke(r.ix()),
            17 | 18 => Op::ObsUnchoke(r.ix()),
            19 => Op::ObsDisconnect(r.ix()),
            20 => Op::SupChoke(r.ix()),
            21 | 22 => Op::SupUnchoke(r.ix()),
            23 if r.bool() => Op::ObsLate(r.ix(), 2 + r.u8() % 40),
            _ => Op::SupHave(r.ix(), r.ix()),
        };
        ops.push(op);
    }
    Case { pieces: if piece_len > 1000 { pieces.min(5) } else { pieces }, piece_len, ops, seed }
}

struct Obs {
    p: usize,
    /// position in w.cmds of the Init the manager served for this observer
    init_at: Option<usize>,
    bitfield_checked: bool,
    /// Have indices received, in order
    haves: Vec<u32>,
    log_seen: usize,
    chokes: bool,
    ever_choked_during_completion: bool,
    handshake_sent: bool,
    /// most completions that happened while this observer's task was not scheduled
    max_lag: usize,
}

pub fn check(c: &Case) -> Outcome {
    let mut o = Outcome::new();
    fresh_cwd();
    let geo = Geometry::single(c.piece_len, c.pieces * c.piece_len, c.seed);
    let n = geo.pieces_num();
    let t = Torrent::new(geo);
    if c.seed % 4 == 1 {
        // a restart: damaged piece files of an earlier run are in the directory
        t.write_damaged_leftovers(c.seed);
        o.class("damaged-leftover-piece-files");
    }
    let c2 = c.clone();
    let t2 = t.clone();
    let res = swarm::run(c.seed, &t, move |w: &mut World| {
        Box::pin(async move {
            let c = c2;
            let t = t2;
            let mut net = Net::new(&t);
            let mut fails: Vec<(String, String)> = vec![];
            let mut classes: Vec<&'static str> = vec![];
            let mut suppliers: Vec<usize> = vec![];
            let mut observers: Vec<Obs> = vec![];

            let verified_on_disk = |t: &Torrent| -> BTreeSet<usize> {
                let mut d = BTreeSet::new();
                for i in 0..t.hashes.len() {
                    if let Ok(data) = std::fs::read(t.piece_file_name(i)) {
                        if sha1(&data) == t.hashes[i] {
                            d.insert(i);
                        }
                    }
                }
                d
            };

            let mut ops = vec![Op::SupplierJoin];
            ops.extend(c.ops.iter().cloned());
            // at the end every observer unchokes so that everything held back must have been flushed
            let tail = 3;
            for _ in 0..tail {
                ops.push(Op::Deliver(0));
            }
            let n_ops = ops.len();
            for (k, op) in ops.iter().enumerate() {
                if w.fatal().is_some() || !fails.is_empty() {
                    break;
                }
                let live_sup: Vec<usize> = suppliers.iter().copied().filter(|p| net.alive(w, *p) && !net.peers[*p].view.outstanding.is_empty()).collect();
                let live_obs: Vec<usize> = (0..observers.len()).filter(|i| net.alive(w, observers[*i].p)).collect();
                let what = format!("op {} {:?}", k, op);
                let mut deliver = |net: &mut Net, w: &mut World, sel: u16, corrupt: bool, classes: &mut Vec<&'static str>| {
                    if !live_sup.is_empty() {
                        let p = live_sup[idx(sel, live_sup.len())];
                        if corrupt {
                            let (i, b, l) = net.peers[p].view.outstanding.pop_front().unwrap();
                            let mut data = t.piece(i as usize)[b as usize..(b + l) as usize].to_vec();
                            if !data.is_empty() {
                                data[0] ^= 1;
                            }
                            w.send_frame(net.peers[p].conn, &RFrame::Piece(i, b, data));
                            classes.push("corrupt-completion");
                        } else {
                            net.answer(w, p, 0);
                        }
                    }
                };
                match op {
                    Op::SupplierJoin => {
                        if suppliers.iter().filter(|p| net.alive(w, **p)).count() < 2 {
                            let p = net.connect(w, false);
                            net.handshake(w, p);
                            net.bitfield(w, p, &vec![true; n]);
                            net.observe(w).await;
                            net.unchoke(w, p);
                            suppliers.push(p);
                        }
                    }
                    Op::Deliver(s) => deliver(&mut net, w, *s, false, &mut classes),
                    Op::DeliverMany(k) => {
                        // a long run of completions (more than any plausible internal queue bound) - typically while some
                        // observer is choking the client
                        let mut done = 0usize;
                        for _ in 0..*k {
                            let sup: Vec<usize> = suppliers.iter().copied().filter(|p| net.alive(w, *p) && !net.peers[*p].view.outstanding.is_empty()).collect();
                            if sup.is_empty() || w.fatal().is_some() {
                                break;
                            }
                            net.answer(w, sup[0], 0);
                            net.observe(w).await;
                            done += 1;
                        }
                        if done >= 100 && observers.iter().any(|ob| ob.chokes && ob.init_at.is_some() && net.alive(w, ob.p)) {
                            classes.push(">=100-completions-while-an-observer-chokes");
                        }
                    }
                    Op::ObsLate(oi, k) => {
                        let cands: Vec<usize> = (0..observers.len()).filter(|i| observers[*i].init_at.is_some() && net.alive(w, observers[*i].p)).collect();
                        if !cands.is_empty() {
                            let oi = cands[idx(*oi, cands.len())];
                            let conn = net.peers[observers[oi].p].conn;
                            w.frozen.insert(conn);
                            let mut done = 0usize;
                            for _ in 0..*k {
                                let sup: Vec<usize> = suppliers.iter().copied().filter(|p| net.alive(w, *p) && !net.peers[*p].view.outstanding.is_empty()).collect();
                                if sup.is_empty() || w.fatal().is_some() {
                                    break;
                                }
                                net.answer(w, sup[0], 0);
                                net.observe(w).await;
                                done += 1;
                            }
                            w.frozen.remove(&conn);
                            observers[oi].max_lag = observers[oi].max_lag.max(done);
                            if done >= 2 {
                                classes.push("completions-while-an-observer-task-is-not-scheduled");
                            }
                            if done > 16 {
                                classes.push(">16-completions-while-an-observer-task-is-not-scheduled");
                            }
                        }
                    }
                    Op::DeliverCorrupt(s) => deliver(&mut net, w, *s, true, &mut classes),
                    Op::ObserverJoin { outgoing, with_delivery } => {
                        if observers.len() < 3 {
                            let p = net.connect(w, *outgoing);
                            net.handshake(w, p);
                            observers.push(Obs { p, init_at: None, bitfield_checked: false, haves: vec![], log_seen: 0, chokes: true, ever_choked_during_completion: false, handshake_sent: true, max_lag: 0 });
                            if *with_delivery {
                                deliver(&mut net, w, 0, false, &mut classes);
                                classes.push("handshake-and-delivery-in-same-barrier");
                            }
                        }
                    }
                    Op::ObserverJoinSilent => {
                        if observers.len() < 3 {
                            let p = net.connect(w, true);
                            observers.push(Obs { p, init_at: None, bitfield_checked: false, haves: vec![], log_seen: 0, chokes: true, ever_choked_during_completion: false, handshake_sent: false, max_lag: 0 });
                            classes.push("outgoing-observer-handshakes-late");
                        }
                    }
                    Op::ObsHandshake(i) => {
                        let pending: Vec<usize> = live_obs.iter().copied().filter(|k| !observers[*k].handshake_sent).collect();
                        if !pending.is_empty() {
                            let ob = &mut observers[pending[idx(*i, pending.len())]];
                            net.handshake(w, ob.p);
                            ob.handshake_sent = true;
                        } else if !live_obs.is_empty() {
                            // everybody has handshaken: one of them sends its (valid) handshake a second time; nothing
                            // about choking or interest changes by that
                            let ob = &observers[live_obs[idx(*i, live_obs.len())]];
                            net.handshake(w, ob.p);
                            classes.push("observer-repeats-its-handshake");
                        }
                    }
                    Op::ObsChoke(i) => {
                        let live_obs: Vec<usize> = live_obs.iter().copied().filter(|k| observers[*k].handshake_sent).collect();
                        if !live_obs.is_empty() {
                            let ob = &mut observers[live_obs[idx(*i, live_obs.len())]];
                            net.choke(w, ob.p);
                            ob.chokes = true;
                        }
                    }
                    Op::ObsUnchoke(i) => {
                        let live_obs: Vec<usize> = live_obs.iter().copied().filter(|k| observers[*k].handshake_sent).collect();
                        if !live_obs.is_empty() {
                            let ob = &mut observers[live_obs[idx(*i, live_obs.len())]];
                            net.unchoke(w, ob.p);
                            ob.chokes = false;
                        }
                    }
                    Op::SupChoke(i) => {
                        let live: Vec<usize> = suppliers.iter().copied().filter(|p| net.alive(w, *p)).collect();
                        if !live.is_empty() {
                            let p = live[idx(*i, live.len())];
                            if !net.peers[p].view.outstanding.is_empty() {
                                classes.push("supplier-chokes-mid-piece");
                            }
                            net.choke(w, p);
                        }
                    }
                    Op::SupUnchoke(i) => {
                        let live: Vec<usize> = suppliers.iter().copied().filter(|p| net.alive(w, *p) && net.peers[*p].chokes_client).collect();
                        if !live.is_empty() {
                            let p = live[idx(*i, live.len())];
                            net.unchoke(w, p);
                        }
                    }
                    Op::SupHave(i, k) => {
                        let live: Vec<usize> = suppliers.iter().copied().filter(|p| net.alive(w, *p)).collect();
                        if !live.is_empty() {
                            let p = live[idx(*i, live.len())];
                            net.have(w, p, idx(*k, n));
                        }
                    }
                    Op::ObsDisconnect(i) => {
                        if !live_obs.is_empty() {
                            let ob = &observers[live_obs[idx(*i, live_obs.len())]];
                            net.disconnect(w, ob.p);
                        }
                    }
                }
                if k + tail == n_ops {
                    // final phase: every observer unchokes
                    for ob in observers.iter_mut() {
                        if net.alive(w, ob.p) && !ob.handshake_sent {
                            net.handshake(w, ob.p);
                            ob.handshake_sent = true;
                        }
                        if net.alive(w, ob.p) && ob.chokes {
                            net.unchoke(w, ob.p);
                            ob.chokes = false;
                        }
                    }
                }
                let cmds_before = w.cmds.len();
                net.observe(w).await;
                if w.fatal().is_some() {
                    break;
                }
                // A: completion order as the manager was told
                let a_seq: Vec<(usize, usize)> = w
                    .cmds
                    .iter()
                    .enumerate()
                    .filter(|(_, cr)| cr.kind == "PieceDone")
                    .filter_map(|(pos, cr)| cr.peer_piece_before.map(|i| (pos, i)))
                    .collect();
                let completed_now = w.cmds[cmds_before..].iter().any(|cr| cr.kind == "PieceDone");
                let d = verified_on_disk(&t);
                for ob in observers.iter_mut() {
                    let rp = &net.peers[ob.p];
                    if ob.init_at.is_none() {
                        ob.init_at = w.cmds.iter().position(|cr| cr.kind == "Init" && cr.addr == rp.addr);
                        if let Some(pos) = ob.init_at {
                            let before = a_seq.iter().filter(|(p, _)| *p < pos).count();
                            if before >= 1 && before < n {
                                classes.push("observer-handshake-between-completions");
                            }
                        }
                    }
                    if completed_now && ob.chokes && ob.init_at.is_some() && net.alive(w, ob.p) {
                        ob.ever_choked_during_completion = true;
                    }
                    for (_, f) in &rp.log[ob.log_seen..] {
                        match f {
                            RFrame::Bitfield(b) => {
                                ob.bitfield_checked = true;
                                let bits = match wire::bytes_to_bits(b, n) {
                                    Some(x) => x,
                                    None => {
                                        fails.push(("bitfield-wrong-size".into(), format!("{}: {} bytes for {} pieces", what, b.len(), n)));
                                        continue;
                                    }
                                };
                                // spare bits zero
                                if n % 8 != 0 {
                                    let last = *b.last().unwrap();
                                    if last & (0xffu8 >> (n % 8)) != 0 {
                                        fails.push(("bitfield-spare-bits-set".into(), format!("{}: last byte {:08b} for {} pieces", what, last, n)));
                                    }
                                }
                                let pos = ob.init_at.unwrap_or(usize::MAX);
                                let a_at_init: BTreeSet<usize> = a_seq.iter().filter(|(p, _)| *p < pos).map(|(_, i)| *i).collect();
                                for i in 0..n {
                                    if bits[i] && !d.contains(&i) {
                                        fails.push(("bitfield-marks-unverified-piece".into(), format!("{}: bitfield to {} marks piece {} which is not verified on disk (verified: {:?})", what, rp.addr, i, d)));
                                    }
                                    if !bits[i] && a_at_init.contains(&i) {
                                        fails.push((
                                            "bitfield-omits-verified-piece".into(),
                                            format!("{}: bitfield to {} omits piece {} whose completion the manager had handled before this peer's handshake (completed then: {:?})", what, rp.addr, i, a_at_init),
                                        ));
                                    }
                                }
                            }
                            RFrame::Have(i) => {
                                if !d.contains(&(*i as usize)) {
                                    fails.push(("have-announced-for-unverified-piece".into(), format!("{}: Have({}) to {} but that piece is not verified on disk", what, i, rp.addr)));
                                }
                                ob.haves.push(*i);
                            }
                            _ => {}
                        }
                    }
                    ob.log_seen = rp.log.len();
                    // (3) order and completeness of announcements
                    if let Some(pos) = ob.init_at {
                        let expect: Vec<u32> = a_seq.iter().filter(|(p, _)| *p > pos).map(|(_, i)| *i as u32).collect();
                        let expect_set: BTreeSet<u32> = expect.iter().copied().collect();
                        let got: Vec<u32> = ob.haves.iter().copied().filter(|i| expect_set.contains(i)).collect();
                        // is `got` what remains of `expect` after dropping some announcements (order kept)?
                        let subsequence = {
                            let mut it = expect.iter();
                            got.iter().all(|g| it.any(|e| e == g))
                        };
                        let gap = got.len() <= expect.len() && got[..] != expect[..got.len()];
                        let short = !ob.chokes && net.alive(w, ob.p) && got.len() < expect.len();
                        if ob.max_lag > 31 && subsequence && (gap || short) {
                            // known finding: the task's broadcast receiver holds 32 commands; a task that falls further
                            // behind loses the oldest ones
                            fails.push((
                                "have-announcement-lost-by-a-task-that-lagged-more-than-31-broadcasts".into(),
                                format!("{}: {} was not scheduled while {} pieces completed and received only {} of the {} announcements due: {:?} of {:?}", what, rp.addr, ob.max_lag, got.len(), expect.len(), got, expect),
                            ));
                        } else if got.len() > expect.len() || got[..] != expect[..got.len()] {
                            fails.push((
                                "have-announcements-out-of-completion-order".into(),
                                format!("{}: {} received Haves {:?}; completions after its handshake, in order: {:?}", what, rp.addr, got, expect),
                            ));
                        } else if !ob.chokes && net.alive(w, ob.p) && got.len() != expect.len() {
                            fails.push((
                                if ob.max_lag > 31 { "have-announcement-lost-by-a-task-that-lagged-more-than-31-broadcasts".into() } else { "have-announcement-missing-after-unchoke".to_string() },
                                format!("{}: {} is not choking the client but received only {:?} of the completions {:?}", what, rp.addr, got, expect),
                            ));
                        }
                    }
                }
            }
            for ob in &observers {
                if ob.ever_choked_during_completion {
                    classes.push("completion-while-observer-chokes");
                }
                if ob.bitfield_checked {
                    classes.push("observer-bitfield-checked");
                }
            }
            (fails, classes, w.fatal())
        })
    });
    match res {
        Err(p) => o.fail(panic_signature(&p), format!("runtime panic: {}", p)),
        Ok((fails, classes, fatal)) => {
            for cl in classes {
                o.class(cl);
            }
            for (s, d) in fails {
                o.fail(s, d);
            }
            if let Some((s, d)) = fatal {
                o.fail(s, d);
            }
        }
    }
    o.nontrivial = o.classes.contains(&"observer-handshake-between-completions") && o.classes.contains(&"completion-while-observer-chokes");
    o
}

pub fn def() -> PropDef {
    PropDef {
        id: "C11",
        rule: "(once every observer has handshaken, op ObsHandshake makes one of them send its valid handshake a second time: nothing about choking changes by that) (op ObsLate: an observer's task is not scheduled while 2-64 pieces complete; a loss after a lag of more than 31 broadcasts is the known finding, a loss after a smaller lag a violation) (in a quarter of the cases damaged piece files of an earlier run - right name and length, zeroed tail - lie in the download directory: a restart) one or two supplier peers deliver single-block pieces (2-20 pieces of 1-40 bytes, or 20000-byte two-block pieces) at generated points of a global schedule of up to 60 ops, some deliveries corrupt, suppliers may choke the client in the middle of a piece and unchoke it later; up to three observer connections (incoming or outgoing; outgoing ones may send their own handshake much later than the client's) handshake at generated points - also in the same barrier as a delivery - and choke / unchoke the client at generated points; at the end every observer unchokes. The harness knows A(t), the completion order the manager has handled (every command passes through the stepper), and D(t), the pieces verified on disk. Oracle: an observer's bitfield satisfies A(at its Init) <= bits <= D, spare bits zero; every Have(i) has i in D at the barrier it is read; for each observer the Haves for pieces completed after its Init arrive exactly in completion order, and whenever the observer is not choking the client none is missing. Non-trivial = an observer handshake after at least one and before the last completion, and a completion while that observer chokes the client; distinct by hash of the case.",
        assumptions: &[
            "fewer than 32 completions happen between two barriers of any connection task (each completion has its own barrier, also in the long runs of 100-200 completions) (the broadcast channel holds 32 commands; lagging receivers are a capacity question the property does not speak about)",
            "D is sampled at barriers; a bitfield is compared with D at the end of the barrier in which it was read (D is monotone)",
        ],
        subs: vec![Sub {
            name: "announcements",
            cases: |t| t.pick(12_000, 150_000),
            run: |ctx| run_proptest(ctx, "announcements", strategy(), check),
            replay: |v| replay_case::<Case>(v, check),
            min_class: &[("observer-handshake-between-completions", 0.3), ("completion-while-observer-chokes", 0.3), ("observer-bitfield-checked", 0.4288), ("handshake-and-delivery-in-same-barrier", 0.2), ("corrupt-completion", 0.2), ("outgoing-observer-handshakes-late", 0.1), ("supplier-chokes-mid-piece", 0.1), (">=100-completions-while-an-observer-chokes", 0.003), ("damaged-leftover-piece-files", 0.1), ("completions-while-an-observer-task-is-not-scheduled", 0.08), (">16-completions-while-an-observer-task-is-not-scheduled", 0.008), ("observer-repeats-its-handshake", 0.15)],
        }],
    }
}
