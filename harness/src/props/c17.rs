//! C17 — The metainfo model is a faithful, safe reading of the .torrent.

use crate::conv::show_bytes;
use crate::engine::*;
use crate::gen::bencode::*;
use crate::props::c16::{apply_muts, Mut};
use crate::refmodel::bencode::{self as rb, RVal};
use crate::refmodel::geometry::{content, sha1};
use proptest::collection::vec;
use proptest::prelude::*;
use serde::{Deserialize, Serialize};

// ------------------------------------------------------------------ accessor safety (shared)

/// Call every accessor for every valid index; a panic is a violation.
pub fn exercise_accessors(m: &rdest::Metainfo, o: &mut Outcome, what: &str) {
    let r = catch(|| {
        let n = m.pieces_num();
        let _ = m.tracker_url().len();
        let _ = m.info_hash();
        let _ = m.total_length();
        let _ = m.file_piece_ranges().len();
        // bounded sweep: first, last and a few in between
        let idxs: Vec<usize> = if n <= 64 { (0..n).collect() } else { vec![0, 1, n / 2, n - 2, n - 1] };
        for i in idxs {
            let _ = m.piece(i);
            let _ = m.piece_length(i);
        }
    });
    if let Err(p) = r {
        o.fail(format!("accessor-{}", panic_signature(&p)), format!("accessor panicked on accepted metainfo ({}): {}", what, p));
    }
}

// ------------------------------------------------------------------ (a) totality

#[derive(Clone, Debug, Serialize, Deserialize)]
pub struct TotCase {
    pub base: Option<ModelCase>,
    pub raw: Vec<u8>,
    pub muts: Vec<Mut>,
}

fn mut_strategy() -> BoxedStrategy<Mut> {
    let b = prop_oneof![4 => prop::sample::select(b":eild-0123456789".to_vec()), 1 => any::<u8>()];
    prop_oneof![
        2 => any::<u16>().prop_map(Mut::Truncate),
        2 => any::<u16>().prop_map(Mut::Delete),
        2 => (any::<u16>(), b.clone()).prop_map(|(i, b)| Mut::Insert(i, b)),
        2 => (any::<u16>(), b).prop_map(|(i, b)| Mut::Replace(i, b)),
        1 => (any::<u16>(), any::<u16>()).prop_map(|(a, b)| Mut::DupSpan(a, b)),
        3 => (any::<u16>(), 0u8..10).prop_map(|(i, d)| Mut::Digit(i, d)),
    ]
    .boxed()
}

fn tot_strategy() -> BoxedStrategy<TotCase> {
    prop_oneof![
        5 => (model_strategy(), vec(mut_strategy(), 0..4)).prop_map(|(m, muts)| TotCase { base: Some(m), raw: vec![], muts }),
        1 => (bytes_strategy(60), vec(mut_strategy(), 0..2)).prop_map(|(raw, muts)| TotCase { base: None, raw, muts }),
    ]
    .boxed()
}

pub fn check_bytes_total(doc: &[u8], o: &mut Outcome) -> bool {
    match catch(|| rdest::Metainfo::from_bencode(doc)) {
        Err(p) => {
            o.fail(panic_signature(&p), format!("from_bencode panicked on {}: {}", show_bytes(doc), p));
            false
        }
        Ok(Err(_)) => false,
        Ok(Ok(m)) => {
            exercise_accessors(&m, o, &show_bytes(doc));
            true
        }
    }
}

pub fn check_tot(case: &TotCase) -> Outcome {
    let mut o = Outcome::new();
    let mut doc = match &case.base {
        Some(m) => build_model(m),
        None => case.raw.clone(),
    };
    apply_muts(&mut doc, &case.muts);
    o.nontrivial = !case.muts.is_empty() || case.base.is_none();
    let acc = check_bytes_total(&doc, &mut o);
    o.class_if(acc, "accepted");
    o.class_if(!acc, "rejected");
    o.class_if(case.base.is_none(), "arbitrary-bytes");
    o
}

#[derive(Clone, Debug, Serialize, Deserialize)]
pub struct RawCase {
    pub bytes: Vec<u8>,
}

// ------------------------------------------------------------------ (b) faithfulness

#[derive(Clone, Debug, Serialize, Deserialize)]
pub struct ModelCase {
    pub announce: String,
    pub name: String,
    pub piece_len: i64,
    pub n_hashes: usize,
    pub hash_seed: u64,
    pub length: Option<i64>,
    pub files: Vec<(i64, String)>,
    pub extra_top: Vec<(Vec<u8>, RVal)>,
    pub extra_info: Vec<(Vec<u8>, RVal)>,
    pub rot_top: u8,
    pub rot_info: u8,
}

fn num_strategy() -> BoxedStrategy<i64> {
    prop_oneof![
        6 => 1i64..3_000_000,
        2 => prop::sample::select(vec![0i64, 1, 2, 16384, 262144, 1 << 31, (1 << 31) - 1, 1 << 32, (1 << 32) + 1, 1 << 40, 1 << 62, i64::MAX, i64::MAX - 1, 1 << 53]),
    ]
    .boxed()
}

fn text() -> BoxedStrategy<String> {
    prop_oneof![
        3 => "[a-zA-Z0-9_. -]{1,12}",
        1 => "[a-z]{1,4}/[a-z]{1,4}",
        1 => Just("ünï-ço∂é".to_string()),
    ]
    .boxed()
}

fn extra_key() -> BoxedStrategy<Vec<u8>> {
    prop::sample::select(vec![
        b"comment".to_vec(), b"created by".to_vec(), b"creation date".to_vec(), b"encoding".to_vec(), b"private".to_vec(),
        b"source".to_vec(), b"zzz".to_vec(), b"aaa".to_vec(), b"md5sum".to_vec(), b"url-list".to_vec(),
    ])
    .boxed()
}

pub fn model_strategy() -> BoxedStrategy<ModelCase> {
    (
        (prop_oneof![Just("http://tracker.example:6969/announce".to_string()), text()], text(), num_strategy(), 0usize..5, any::<u64>()),
        prop_oneof![num_strategy().prop_map(Some), Just(None)],
        vec((num_strategy(), text()), 0..5),
        vec((extra_key(), rval_any(8)), 0..3),
        vec((extra_key(), rval_any(8)), 0..3),
        0u8..6,
        0u8..6,
    )
        .prop_map(|((announce, name, piece_len, n_hashes, hash_seed), length, files, extra_top, extra_info, rot_top, rot_info)| ModelCase {
            announce,
            name,
            piece_len,
            n_hashes,
            hash_seed,
            length,
            files,
            extra_top,
            extra_info,
            rot_top,
            rot_info,
        })
        .boxed()
}

fn model_hashes(c: &ModelCase) -> Vec<u8> {
    content(c.hash_seed, c.n_hashes * 20)
}

pub fn build_model(c: &ModelCase) -> Vec<u8> {
    let mut info: Vec<(Vec<u8>, RVal)> = vec![
        (b"name".to_vec(), RVal::Str(c.name.as_bytes().to_vec())),
        (b"piece length".to_vec(), RVal::Int(c.piece_len)),
        (b"pieces".to_vec(), RVal::Str(model_hashes(c))),
    ];
    match c.length {
        Some(l) => info.push((b"length".to_vec(), RVal::Int(l))),
        None => info.push((
            b"files".to_vec(),
            RVal::List(
                c.files
                    .iter()
                    .enumerate()
                    .map(|(k, (l, p))| {
                        let mut e = vec![(b"length".to_vec(), RVal::Int(*l)), (b"path".to_vec(), RVal::Str(p.as_bytes().to_vec()))];
                        // extra keys seen in the wild inside file entries (BEP47 attr, md5sum, ...), derived from the seed
                        let x = c.hash_seed.rotate_left(k as u32 * 7);
                        if x % 3 == 0 {
                            let attrs: [&[u8]; 6] = [b"p", b"x", b"hp", b"l", b"", b"padding"];
                            e.push((b"attr".to_vec(), RVal::Str(attrs[(x >> 8) as usize % 6].to_vec())));
                        }
                        if x % 5 == 0 {
                            e.push((b"md5sum".to_vec(), RVal::s("0123456789abcdef0123456789abcdef")));
                        }
                        if x % 7 == 0 {
                            e.push((b"mtime".to_vec(), RVal::Int((x >> 16) as i64 & 0xffff)));
                        }
                        e.sort_by(|a, b| a.0.cmp(&b.0));
                        RVal::Dict(e)
                    })
                    .collect(),
            ),
        )),
    }
    for (k, v) in &c.extra_info {
        if !info.iter().any(|(kk, _)| kk == k) {
            info.push((k.clone(), v.clone()));
        }
    }
    info.sort_by(|a, b| a.0.cmp(&b.0));
    let r = c.rot_info as usize % info.len();
    info.rotate_left(r);
    let mut top: Vec<(Vec<u8>, RVal)> = vec![
        (b"announce".to_vec(), RVal::Str(c.announce.as_bytes().to_vec())),
        (b"info".to_vec(), RVal::Dict(info)),
    ];
    for (k, v) in &c.extra_top {
        if !top.iter().any(|(kk, _)| kk == k) {
            top.push((k.clone(), v.clone()));
        }
    }
    top.sort_by(|a, b| a.0.cmp(&b.0));
    let r = c.rot_top as usize % top.len();
    top.rotate_left(r);
    rb::encode(&RVal::Dict(top))
}

pub fn check_model(c: &ModelCase) -> Outcome {
    let mut o = Outcome::new();
    let doc = build_model(c);
    let lens: Vec<i64> = match c.length {
        Some(l) => vec![l],
        None => c.files.iter().map(|(l, _)| *l).collect(),
    };
    let sensible = c.piece_len >= 1 && c.piece_len < (1 << 31) && lens.iter().all(|l| *l < (1 << 40));
    let odd_num = !sensible;
    o.nontrivial = odd_num || c.length.is_none();
    o.class_if(sensible, "sensible");
    o.class_if(odd_num, "odd-numeric-field");
    o.class_if(c.length.is_none(), "multi-file");
    o.class_if(c.piece_len == 0, "piece-length-0");
    o.class_if(c.n_hashes == 0, "zero-hashes");
    o.class_if(c.rot_top != 0 || c.rot_info != 0, "shuffled-key-order");

    let m = match catch(|| rdest::Metainfo::from_bencode(&doc)) {
        Err(p) => {
            o.fail(panic_signature(&p), format!("from_bencode panicked on {}: {}", show_bytes(&doc), p));
            return o;
        }
        Ok(Err(e)) => {
            o.class("rejected");
            if sensible {
                o.fail("rejects-sensible-metainfo", format!("well-formed sensible document rejected ({}): {}", e, show_bytes(&doc)));
            }
            return o;
        }
        Ok(Ok(m)) => m,
    };
    o.class("accepted");
    exercise_accessors(&m, &mut o, &format!("piece length {}, lengths {:?}, {} hashes", c.piece_len, lens, c.n_hashes));
    if !o.ok() {
        return o;
    }
    // field by field
    if m.tracker_url() != &c.announce {
        o.fail("field-announce", format!("tracker_url {:?} != {:?}", m.tracker_url(), c.announce));
    }
    if m.pieces_num() != c.n_hashes {
        o.fail("field-pieces-num", format!("pieces_num {} != {}", m.pieces_num(), c.n_hashes));
    } else {
        let hs = model_hashes(c);
        for i in 0..c.n_hashes {
            if m.piece(i)[..] != hs[i * 20..i * 20 + 20] {
                o.fail("field-piece-hash", format!("piece({}) differs from the {}-th 20-byte group of `pieces`", i, i));
            }
        }
    }
    let total: u128 = lens.iter().map(|l| *l as u128).sum();
    if total <= u64::MAX as u128 && m.total_length() as u128 != total {
        o.fail("field-total-length", format!("total_length {} != sum of lengths {}", m.total_length(), total));
    }
    let ranges = m.file_piece_ranges();
    let want_paths: Vec<String> = match c.length {
        Some(_) => vec![c.name.clone()],
        None => c.files.iter().map(|(_, p)| format!("{}/{}", c.name, p)).collect(),
    };
    let got_paths: Vec<String> = ranges.iter().map(|(p, _, _)| p.to_string_lossy().to_string()).collect();
    let norm = |s: &String| std::path::PathBuf::from(s).to_string_lossy().to_string();
    if got_paths.len() != want_paths.len() || got_paths.iter().zip(want_paths.iter()).any(|(g, w)| g != &norm(w)) {
        o.fail("field-file-list", format!("file list {:?} != {:?} (name + ordered paths of the document)", got_paths, want_paths));
    } else if c.piece_len > 0 && total < (1u128 << 62) {
        let pl = c.piece_len as u128;
        let mut pos: u128 = 0;
        for (k, (_, s, e)) in ranges.iter().enumerate() {
            let end = pos + lens[k] as u128;
            let ok = s.file_index as u128 == pos / pl
                && s.byte_index as u128 == pos % pl
                && e.file_index as u128 == end / pl
                && e.byte_index as u128 == end % pl;
            if !ok {
                o.fail(
                    "field-file-range",
                    format!("file {} range ({},{})..({},{}) does not match content offsets {}..{} with piece length {}", k, s.file_index, s.byte_index, e.file_index, e.byte_index, pos, end, pl),
                );
                break;
            }
            pos = end;
        }
    }
    // piece_length(i) partitions the total when the piece count is consistent with it
    if c.piece_len > 0 && c.n_hashes > 0 && total > 0 && total < (1u128 << 62) {
        let pl = c.piece_len as u128;
        if (total + pl - 1) / pl == c.n_hashes as u128 {
            o.class("consistent-geometry");
            let sum: u128 = (0..c.n_hashes).map(|i| m.piece_length(i) as u128).sum();
            if sum != total {
                o.fail("piece-length-partition", format!("sum of piece_length(i) {} != total {}", sum, total));
            }
        }
    }
    o
}

// ------------------------------------------------------------------ (c) creation

#[derive(Clone, Debug, Serialize, Deserialize)]
pub struct CreateCase {
    pub file_name: String,
    pub len: usize,
    pub seed: u64,
    pub tracker: String,
    /// the command was run before for the same file name when the file had this length (the .torrent exists already)
    #[serde(default)]
    pub earlier_len: Option<usize>,
}

fn create_strategy() -> BoxedStrategy<CreateCase> {
    (
        "[A-Za-z0-9_][A-Za-z0-9_.-]{0,11}",
        prop_oneof![
            3 => prop::sample::select(vec![0usize, 1, 262143, 262144, 262145, 524287, 524288, 524289]),
            2 => 0usize..600 * 1024,
            2 => 0usize..3000,
        ],
        any::<u64>(),
        prop_oneof![Just("http://127.0.0.1:8000".to_string()), "[a-z]{1,8}://[a-z0-9.]{1,12}(:[0-9]{1,4})?(/[a-z]{0,6})?"],
        prop_oneof![2 => Just(None), 1 => prop::sample::select(vec![0usize, 5, 262145, 600000, 1000]).prop_map(Some)],
    )
        .prop_map(|(file_name, len, seed, tracker, earlier_len)| CreateCase { file_name, len, seed, tracker, earlier_len })
        .boxed()
}

pub fn check_create(c: &CreateCase) -> Outcome {
    const PL: usize = 262144;
    let mut o = Outcome::new();
    let near = c.len % PL <= 1 || c.len % PL == PL - 1;
    o.nontrivial = near;
    o.class_if(near, "length-within-1-of-multiple-of-256KiB");
    o.class_if(c.len > PL, "more-than-one-piece");
    let cwd = fresh_cwd();
    let data = content(c.seed, c.len);
    let path = cwd.join(&c.file_name);
    if let Some(el) = c.earlier_len {
        // an earlier run for the same name, possibly with a longer file and a longer tracker string
        std::fs::write(&path, &content(c.seed ^ 1, el)).unwrap();
        let _ = catch(|| rdest::Metainfo::create_file(&path, &format!("{}/a/much/longer/announce/path", c.tracker)));
        o.class("torrent-file-existed-already");
    }
    if c.seed % 5 == 2 {
        // the file is given through a symbolic link (a download directory full of links into a content store)
        let _ = std::fs::remove_file(&path);
        let store = cwd.join("store");
        std::fs::create_dir_all(&store).unwrap();
        let real = store.join("blob-with-another-name.bin");
        std::fs::write(&real, &data).unwrap();
        std::os::unix::fs::symlink(&real, &path).unwrap();
        o.class("file-given-through-a-symlink");
    } else {
        std::fs::write(&path, &data).unwrap();
    }
    match catch(|| rdest::Metainfo::create_file(&path, &c.tracker)) {
        Err(p) => {
            o.fail(panic_signature(&p), format!("create_file panicked: {}", p));
            return o;
        }
        Ok(Err(e)) => {
            o.fail("create-file-fails", format!("create_file failed for a readable file of {} bytes: {}", c.len, e));
            return o;
        }
        Ok(Ok(())) => {}
    }
    let tpath = cwd.join(format!("{}.torrent", c.file_name));
    let m = match catch(|| rdest::Metainfo::from_file(&tpath)) {
        Err(p) => {
            o.fail(panic_signature(&p), format!("from_file panicked on created torrent: {}", p));
            return o;
        }
        Ok(Err(e)) => {
            o.fail("created-torrent-does-not-parse", format!("torrent created for {:?} ({} bytes) does not parse back: {}", c.file_name, c.len, e));
            return o;
        }
        Ok(Ok(m)) => m,
    };
    exercise_accessors(&m, &mut o, "created torrent");
    if !o.ok() {
        return o;
    }
    if m.tracker_url() != &c.tracker {
        o.fail("create-announce", format!("announce {:?} != {:?}", m.tracker_url(), c.tracker));
    }
    if m.total_length() as usize != c.len {
        o.fail("create-length", format!("total_length {} != file length {}", m.total_length(), c.len));
    }
    let want_n = (c.len + PL - 1) / PL;
    if m.pieces_num() != want_n {
        o.fail("create-pieces-num", format!("pieces_num {} != ceil({}/262144) = {}", m.pieces_num(), c.len, want_n));
    } else {
        for i in 0..want_n {
            let chunk = &data[i * PL..((i + 1) * PL).min(c.len)];
            if m.piece(i) != &sha1(chunk) {
                o.fail("create-piece-hash", format!("piece({}) is not the SHA-1 of chunk {} of the file", i, i));
            }
            if m.piece_length(i) != chunk.len() {
                o.fail("create-piece-length", format!("piece_length({}) = {} but chunk has {} bytes", i, m.piece_length(i), chunk.len()));
            }
        }
    }
    let ranges = m.file_piece_ranges();
    if ranges.len() != 1 || ranges[0].0.to_string_lossy() != c.file_name {
        o.fail("create-name", format!("name/path {:?} != file name {:?}", ranges.iter().map(|r| r.0.clone()).collect::<Vec<_>>(), c.file_name));
    }
    o
}

pub fn def() -> PropDef {
    PropDef {
        id: "C17",
        rule: "sub totality: model torrents with 0-3 byte mutations, or arbitrary delimiter-rich bytes, fed to Metainfo::from_bencode: no panic, and on acceptance every accessor is called for every valid piece index (harness build has overflow checks on). Sub faithful: a model torrent (announce, name, piece length, k hashes, length xor files, extra keys everywhere, rotated key order, numeric fields from {0,1,small,2^31,2^32,2^40,2^53,2^62,i64::MAX} as well as sensible values, 0 hashes) written by the reference writer; on acceptance tracker_url, pieces_num, piece(i), total_length, ordered file list (paths and piece ranges) must equal the model and accessors must not panic; sensible documents must be accepted. Sub create: create_file on generated files (lengths around multiples of 256 KiB, up to 600 KiB; a fifth of them given through a symbolic link) then from_file: name, length, ceil(len/256KiB) SHA-1s, announce. Non-trivial: totality = mutated or arbitrary; faithful = numeric field outside 1..2^31 or multi-file; create = length within 1 of a multiple of 262144. Distinct by hash of the case.",
        assumptions: &[
            "`path` entries are byte strings (rdest's reader), entries of `files` are all well-formed in sub faithful",
            "numeric fields are non-negative in sub faithful (negative ones are rejected by rdest and appear only through mutations)",
        ],
        subs: vec![
            Sub {
                name: "faithful",
                cases: |t| t.pick(200_000, 3_000_000),
                run: |ctx| run_proptest(ctx, "faithful", model_strategy(), check_model),
                replay: |v| replay_case::<ModelCase>(v, check_model),
                min_class: &[("sensible", 0.2), ("odd-numeric-field", 0.1337), ("multi-file", 0.2505), ("accepted", 0.4), ("consistent-geometry", 0.002)],
            },
            Sub {
                name: "totality",
                cases: |t| t.pick(200_000, 3_000_000),
                run: |ctx| run_proptest(ctx, "totality", tot_strategy(), check_tot),
                replay: |v| replay_case::<TotCase>(v, check_tot),
                min_class: &[("accepted", 0.1), ("rejected", 0.3)],
            },
            Sub {
                name: "raw",
                cases: |_| 0,
                run: |_| WorkerReport::default(),
                replay: |v| replay_case::<RawCase>(v, |c| {
                    let mut o = Outcome::new();
                    check_bytes_total(&c.bytes, &mut o);
                    o
                }),
                min_class: &[],
            },
            Sub {
                name: "create",
                cases: |t| t.pick(1_500, 30_000),
                run: |ctx| run_proptest(ctx, "create", create_strategy(), check_create),
                replay: |v| replay_case::<CreateCase>(v, check_create),
                min_class: &[("length-within-1-of-multiple-of-256KiB", 0.2), ("more-than-one-piece", 0.15), ("torrent-file-existed-already", 0.15), ("file-given-through-a-symlink", 0.08)],
            },
        ],
    }
}
