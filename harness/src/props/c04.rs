//! C04 — Extraction never writes outside the download directory.

use crate::engine::*;
use crate::refmodel::geometry::*;
use crate::rt;
use proptest::collection::vec;
use proptest::prelude::*;
use serde::{Deserialize, Serialize};

/// cwd of the extraction = <worker dir>/c/l1/l2 ; everything in <worker dir> outside it is watched.
const DEPTH: usize = 3;

#[derive(Clone, Debug, Serialize, Deserialize)]
pub struct PathSpec {
    pub absolute: bool,
    pub comps: Vec<String>,
    pub double_slash: bool,
}

#[derive(Clone, Debug, Serialize, Deserialize)]
pub struct Case {
    pub multi: bool,
    pub name: PathSpec,
    pub paths: Vec<PathSpec>,
    pub seed: u64,
}

fn comp() -> BoxedStrategy<String> {
    prop_oneof![
        4 => Just("..".to_string()),
        1 => Just(".".to_string()),
        1 => Just("".to_string()),
        3 => Just("a".to_string()),
        // the name of files that exist outside the download directory (see the decoys below): a hostile path may point
        // at something that is already there
        2 => Just("decoy".to_string()),
        2 => Just("sub".to_string()),
        1 => Just("..x".to_string()),
        1 => Just("x..".to_string()),
        1 => Just(" ".to_string()),
        1 => Just("...".to_string()),
        2 => Just("..\\bs".to_string()),
        1 => Just("..\\..\\bs".to_string()),
        1 => Just("a\\..\\..\\bs".to_string()),
    ]
    .boxed()
}

fn pathspec(max: usize) -> BoxedStrategy<PathSpec> {
    (prop::bool::weighted(0.2), vec(comp(), 1..=max), prop::bool::weighted(0.15))
        .prop_map(|(absolute, comps, double_slash)| PathSpec { absolute, comps, double_slash })
        .boxed()
}

/// many harmless components, then as many `..` (or a few more): the climb starts deeper than any fixed inspection depth
fn deep_path() -> BoxedStrategy<PathSpec> {
    (prop_oneof![3 => 20usize..140, 1 => prop::sample::select(vec![31usize, 32, 33, 63, 64, 65, 127, 128, 129, 255, 256, 257])], 0usize..4, prop::bool::weighted(0.15))
        .prop_map(|(n, extra, double_slash)| {
            let mut comps: Vec<String> = vec!["d".to_string(); n];
            comps.extend(std::iter::repeat("..".to_string()).take(n + extra));
            comps.push("x".to_string());
            PathSpec { absolute: false, comps, double_slash }
        })
        .boxed()
}

fn plain_name() -> BoxedStrategy<PathSpec> {
    prop::sample::select(vec!["out", "a", "sub"])
        .prop_map(|n| PathSpec { absolute: false, comps: vec![n.to_string()], double_slash: false })
        .boxed()
}

fn strategy(_t: Tier) -> BoxedStrategy<Case> {
    prop_oneof![
        // single-file: the name is the path
        2 => (pathspec(5), any::<u64>()).prop_map(|(name, seed)| Case { multi: false, name, paths: vec![], seed }),
        // multi-file with a plain name and hostile paths
        4 => (plain_name(), vec(pathspec(5), 1..4), any::<u64>())
            .prop_map(|(name, paths, seed)| Case { multi: true, name, paths, seed }),
        // multi-file with a hostile name
        2 => (pathspec(3), vec(pathspec(3), 0..4), any::<u64>())
            .prop_map(|(name, paths, seed)| Case { multi: true, name, paths, seed }),
        // deep climbs
        1 => (deep_path(), any::<u64>()).prop_map(|(name, seed)| Case { multi: false, name, paths: vec![], seed }),
        1 => (plain_name(), deep_path(), vec(pathspec(3), 0..2), any::<u64>()).prop_map(|(name, deep, mut paths, seed)| {
            paths.push(deep);
            Case { multi: true, name, paths, seed }
        }),
    ]
    .boxed()
}

/// `..` segments of one component, also when the separator is a backslash (a platform-confused implementation
/// might treat it as one)
fn dd(c: &str) -> usize {
    c.split(|ch| ch == '/' || ch == '\\').filter(|s| *s == "..").count()
}

fn dotdots(p: &PathSpec) -> usize {
    p.comps.iter().map(|c| dd(c)).sum()
}

/// Render a path; absolute ones are placed under the worker's canary directory.
fn render(p: &PathSpec, canary: &str) -> String {
    let sep = if p.double_slash { "//" } else { "/" };
    let body = p.comps.join(sep);
    if p.absolute {
        if p.double_slash && p.comps.iter().any(|c| c.contains('\\')) {
            // an absolute path written with backslashes only
            format!("{}/{}", canary, body).replace('/', "\\")
        } else {
            format!("{}/{}", canary, body)
        }
    } else {
        body
    }
}

fn is_plain(p: &PathSpec) -> bool {
    !p.absolute && p.comps.len() == 1 && !["..", ".", ""].contains(&p.comps[0].as_str())
}

pub fn check(case: &Case) -> Outcome {
    let mut o = Outcome::new();
    let root = worker_dir();
    // private layout: <root>/c/l1/l2 is the cwd; <root>/canary is where absolute paths point
    let base = fresh_cwd(); // <root>/c
    let cwd = base.join("l1").join("l2");
    std::fs::create_dir_all(&cwd).unwrap();
    let canary_dir = root.join("canary");
    let _ = std::fs::remove_dir_all(&canary_dir);
    std::fs::create_dir_all(&canary_dir).unwrap();
    // decoys an escaping write could hit or sit next to
    std::fs::write(root.join("decoy"), b"decoy").unwrap();
    std::fs::write(base.join("decoy"), b"decoy").unwrap();
    std::fs::write(base.join("l1").join("decoy"), b"decoy").unwrap();
    std::env::set_current_dir(&cwd).unwrap();
    let canary = canary_dir.to_string_lossy().to_string();

    // keep every escape inside the watched private root: a `..` that would take the path more than DEPTH levels above
    // the download directory (counting the levels gone down before it) is dropped
    let mut case = case.clone();
    let trim = |p: &mut PathSpec, start: i64| -> i64 {
        let mut depth = start;
        let mut kept = vec![];
        for c in p.comps.drain(..) {
            let n = dd(&c) as i64;
            if n > 0 {
                if depth - n < -(DEPTH as i64) {
                    continue;
                }
                depth -= n;
            } else if c != "." && !c.is_empty() {
                depth += 1;
            }
            kept.push(c);
        }
        if kept.is_empty() {
            kept.push("a".to_string());
        }
        p.comps = kept;
        depth
    };
    // a multi-file torrent's paths start below the name; short names count as not going down at all (an
    // implementation may drop or flatten them)
    let after_name = trim(&mut case.name, 0).min(0);
    for p in case.paths.iter_mut() {
        trim(p, after_name);
    }

    let hostile = |p: &PathSpec| p.absolute || dotdots(p) > 0;
    o.class_if(case.multi, "multi-file");
    o.class_if(hostile(&case.name), "hostile-name");
    o.class_if(case.paths.iter().any(|p| hostile(p)), "hostile-path");
    o.class_if(case.name.absolute || case.paths.iter().any(|p| p.absolute), "absolute");
    o.class_if(case.name.comps.iter().chain(case.paths.iter().flat_map(|p| p.comps.iter())).any(|c| c.contains('\\')), "backslash-component");
    o.class_if(
        case.paths.iter().any(|p| p.comps.first().map(|c| c != "..").unwrap_or(false) && dotdots(p) > 0),
        "dotdot-after-normal-component",
    );
    o.nontrivial = hostile(&case.name) || case.paths.iter().any(|p| hostile(p));

    let name = render(&case.name, &canary);
    let files: Vec<(String, usize)> = if case.multi {
        // lengths include 0 and multiples of the piece length (4): a hostile entry may be an empty file that starts
        // exactly at the end of the last piece
        case.paths.iter().enumerate().map(|(k, p)| (render(p, &canary), [0usize, 4, 0, 8, 3, 5, 0, 4][((case.seed >> (3 * k)) % 8) as usize])).collect()
    } else {
        vec![(name.clone(), 5)]
    };
    let mut files = files;
    if !files.is_empty() && files.iter().map(|f| f.1).sum::<usize>() == 0 {
        // at least one piece must exist
        files[0].1 = 4;
    }
    o.class_if(case.multi && files.is_empty(), "multi-file-without-entries");
    o.class_if(std::iter::once(&case.name).chain(case.paths.iter()).any(|p| p.comps.len() > 40), "climb-after-more-than-20-components");
    o.class_if(case.multi && files.iter().map(|f| f.1).sum::<usize>() % 4 == 0 && files.last().map(|f| f.1 == 0).unwrap_or(false), "empty-file-at-the-very-end-of-the-content");
    let geo = Geometry { piece_len: 4, files, multi: case.multi, name: name.clone(), content_seed: case.seed };
    let mut t = Torrent::new(geo.clone());
    if case.multi && case.seed % 5 == 0 {
        // both `files` and a `length` equal to their sum: a client may refuse the document or read it as multi-file,
        // but must not lose the name directory
        t.also_length = true;
        o.class("files-and-length-both-present");
    }
    let m = match catch(|| t.metainfo()) {
        Ok(Ok(m)) => m,
        Ok(Err(_)) => {
            o.class("refused-at-parse");
            return o; // refusing is fine
        }
        Err(p) => {
            o.fail(panic_signature(&p), format!("from_bencode panicked: {}", p));
            return o;
        }
    };
    t.write_piece_files().unwrap();

    let snapshot = |root: &std::path::Path, cwd: &std::path::Path| -> Vec<(String, Option<u64>)> {
        let rel_cwd = cwd.strip_prefix(root).unwrap().to_string_lossy().to_string();
        rt::list_tree(root)
            .into_iter()
            .filter(|(p, _)| !(p == &rel_cwd || p.starts_with(&(rel_cwd.clone() + "/"))))
            .collect()
    };
    let before = snapshot(&root, &cwd);
    let inside_before = rt::list_tree(&cwd);
    let res = catch(|| rt::run_extractor(&m));
    let after = snapshot(&root, &cwd);
    let inside_after = rt::list_tree(&cwd);
    match &res {
        Err(p) => o.fail(panic_signature(p), format!("extractor panicked: {}", p)),
        Ok(Err(_)) => o.class("refused-by-extractor"),
        Ok(Ok(())) => o.class("extracted"),
    }
    if before != after {
        let new: Vec<&(String, Option<u64>)> = after.iter().filter(|e| !before.contains(e)).collect();
        let sig = if case.name.absolute || case.paths.iter().any(|p| p.absolute) && new.iter().any(|(p, _)| p.starts_with("canary")) {
            "writes-outside-cwd-absolute"
        } else {
            "writes-outside-cwd-dotdot"
        };
        o.fail(
            sig,
            format!(
                "extraction of name={:?} paths={:?} changed the filesystem outside the download directory: {:?}",
                name,
                geo.files.iter().map(|(p, _)| p.clone()).collect::<Vec<_>>(),
                new
            ),
        );
    }
    // multi-file with a plain name: everything created lies inside cwd/<name>/
    if case.multi && is_plain(&case.name) {
        let prefix = format!("{}/", name);
        for (p, sz) in &inside_after {
            if inside_before.contains(&(p.clone(), *sz)) {
                continue;
            }
            if !(p == &name || p.starts_with(&prefix)) {
                let sig = if case.paths.len() == 1 {
                    "single-entry-files-list-written-outside-name-dir"
                } else {
                    "multi-file-entry-written-outside-name-dir"
                };
                o.fail(sig, format!("multi-file torrent name={:?}: created {:?} outside ./{}/ (paths {:?})", name, p, name, geo.files));
                break;
            }
        }
    }
    let _ = std::env::set_current_dir(&root);
    let _ = std::fs::remove_dir_all(&canary_dir);
    let _ = std::fs::remove_file(root.join("decoy"));
    // anything an escaping write left in the private root
    for (p, _) in after.iter().filter(|e| !before.contains(e)) {
        let full = root.join(p);
        let _ = std::fs::remove_file(&full);
        let _ = std::fs::remove_dir_all(&full);
    }
    o
}

fn run(ctx: &WorkerCtx) -> WorkerReport {
    run_proptest(ctx, "paths", strategy(ctx.tier), check)
}

pub fn def() -> PropDef {
    PropDef {
        id: "C04",
        rule: "name/path strings assembled from the component alphabet {.., ., empty, a, sub, ..x, x.., space, ..., and backslash-separated climbs such as ..\\bs} joined by / or // (`decoy` is the name of files that exist one, two and three levels above the download directory), plus deep climbs (20-257 harmless components followed by as many `..` or up to three more), optionally absolute (absolute ones point into a per-worker canary directory), for single-file and multi-file torrents (a fifth of the multi-file ones also carry a `length` equal to the sum of their files) (0-3 file entries: a multi-file torrent without entries still has a name) with a small valid payload; the real Extractor runs in <private root>/c/l1/l2. Oracle: recursive listing (names, sizes) of the private root outside the cwd is unchanged whether extraction reports Done or Fail; for multi-file torrents with a plain name every created entry is inside ./<name>/. Refusing and neutralising are both accepted. Non-trivial = some name/path has a `..` or is absolute; distinct by hash of the case.",
        assumptions: &[
            "the number of `..` components per resulting path is capped at the depth of the cwd below the worker's private root (3), so that every escape lands where the oracle looks",
            "symlinks already present in the download directory are out of scope (the property speaks about names and paths in the metainfo)",
        ],
        subs: vec![Sub {
            name: "paths",
            cases: |t| t.pick(20_000, 300_000),
            run,
            replay: |v| replay_case::<Case>(v, check),
            min_class: &[("hostile-path", 0.2981), ("hostile-name", 0.1), ("absolute", 0.1), ("dotdot-after-normal-component", 0.1), ("backslash-component", 0.15), ("multi-file-without-entries", 0.025), ("climb-after-more-than-20-components", 0.08), ("files-and-length-both-present", 0.05)],
        }],
    }
}
