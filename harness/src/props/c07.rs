//! C07 — Every peer-wire message round-trips through its BEP3 byte layout.

use crate::conv::*;
use crate::engine::*;
use crate::refmodel::wire::{self, RFrame};
use proptest::collection::vec;
use proptest::prelude::*;
use rdest::verif::*;
use serde::{Deserialize, Serialize};
use std::io::Cursor;

#[derive(Clone, Debug, Serialize, Deserialize)]
pub struct Case {
    pub frame: RFrame,
    /// for Bitfield: the bit vector the message is built from (frame holds its reference bytes)
    pub bits: Vec<bool>,
    pub suffix: Vec<u8>,
}

fn u32_edge() -> BoxedStrategy<u32> {
    prop_oneof![
        4 => any::<u32>(),
        2 => 0u32..4,
        2 => prop::sample::select(vec![
            0u32, 1, 2, 255, 256, 16383, 16384, 16385, 65535, 65536, 1 << 24, (1 << 24) - 1, 1 << 31, (1 << 31) - 1,
            u32::MAX, u32::MAX - 1, 0x01020304, 0x80000001
        ]),
    ]
    .boxed()
}

fn arr20() -> BoxedStrategy<[u8; 20]> {
    prop_oneof![
        3 => any::<[u8; 20]>(),
        1 => Just([0u8; 20]),
        1 => Just([0xffu8; 20]),
    ]
    .boxed()
}

fn block(tier: Tier) -> BoxedStrategy<Vec<u8>> {
    let big = tier.pick(4000usize, 65527usize);
    prop_oneof![
        6 => vec(any::<u8>(), 0..40),
        2 => vec(any::<u8>(), 0..=big),
        1 => prop::sample::select(vec![0usize, 1, 2, 16383, 16384, 16385, 65527]).prop_flat_map(|n| vec(any::<u8>(), n..=n)),
    ]
    .boxed()
}

fn frame_strategy(tier: Tier) -> BoxedStrategy<(RFrame, Vec<bool>)> {
    let nobits = |f: RFrame| (f, vec![]);
    prop_oneof![
        1 => Just(nobits(RFrame::KeepAlive)),
        1 => Just(nobits(RFrame::Choke)),
        1 => Just(nobits(RFrame::Unchoke)),
        1 => Just(nobits(RFrame::Interested)),
        1 => Just(nobits(RFrame::NotInterested)),
        3 => u32_edge().prop_map(move |i| nobits(RFrame::Have(i))),
        4 => (u32_edge(), u32_edge(), u32_edge()).prop_map(move |(a, b, c)| nobits(RFrame::Request(a, b, c))),
        4 => (u32_edge(), u32_edge(), u32_edge()).prop_map(move |(a, b, c)| nobits(RFrame::Cancel(a, b, c))),
        4 => (u32_edge(), u32_edge(), block(tier)).prop_map(move |(a, b, d)| nobits(RFrame::Piece(a, b, d))),
        3 => (arr20(), arr20()).prop_map(move |(h, p)| nobits(RFrame::handshake(h, p))),
        4 => prop_oneof![
            40 => vec(any::<bool>(), 0..70),
            40 => vec(any::<bool>(), 0..2000),
            20 => vec(prop::bool::weighted(0.05), 0..200),
            // frame-size and power-of-two neighbourhoods of the piece count (a bitfield of 524280 pieces still fits one frame)
            1 => prop::sample::select(vec![65528usize, 65535, 65536, 65537, 65544, 100_000, 262_144, 524_279, 524_280]).prop_flat_map(|n| vec(prop::bool::weighted(0.5), n..=n)),
        ]
            .prop_map(|bits| (RFrame::Bitfield(wire::bits_to_bytes(&bits)), bits)),
    ]
    .boxed()
}

fn strategy(tier: Tier) -> BoxedStrategy<Case> {
    (frame_strategy(tier), vec(any::<u8>(), 0..12))
        .prop_map(|((frame, bits), suffix)| Case { frame, bits, suffix })
        .boxed()
}

fn build(frame: &RFrame, bits: &Vec<bool>) -> Vec<u8> {
    match frame {
        RFrame::KeepAlive => KeepAlive::new().data(),
        RFrame::Choke => Choke::new().data(),
        RFrame::Unchoke => Unchoke::new().data(),
        RFrame::Interested => Interested::new().data(),
        RFrame::NotInterested => NotInterested::new().data(),
        RFrame::Have(i) => Have::new(*i as usize).data(),
        RFrame::Request(a, b, c) => Request::new(*a as usize, *b as usize, *c as usize).data(),
        RFrame::Cancel(a, b, c) => Cancel::new(*a as usize, *b as usize, *c as usize).data(),
        RFrame::Piece(a, b, d) => Piece::new(*a as usize, *b as usize, d.clone()).data(),
        RFrame::Handshake { info_hash, peer_id, .. } => Handshake::new(info_hash, peer_id).data(),
        RFrame::Bitfield(_) => Bitfield::from_vec(bits).data(),
        RFrame::Unknown(..) => unreachable!(),
    }
}

pub fn check(case: &Case) -> Outcome {
    let mut o = Outcome::new();
    o.class(case.frame.kind());
    o.nontrivial = match &case.frame {
        RFrame::Have(i) => *i > 1,
        RFrame::Request(a, b, c) | RFrame::Cancel(a, b, c) => *a > 1 || *b > 1 || *c > 1,
        RFrame::Piece(a, b, d) => *a > 1 || *b > 1 || d.len() > 1,
        RFrame::Bitfield(b) => b.len() > 1,
        RFrame::Handshake { .. } => true,
        _ => false,
    };
    let r = catch(|| check_inner(case, &mut o));
    if let Err(p) = r {
        o.fail(panic_signature(&p), format!("panic on {}: {}", case.frame.short(), p));
    }
    o
}

fn check_inner(case: &Case, o: &mut Outcome) {
    // (1) emitted bytes == BEP3 layout
    let expect = wire::encode(&case.frame);
    let data = build(&case.frame, &case.bits);
    if data != expect {
        o.fail(
            format!("layout-{}", case.frame.kind()),
            format!("{}: client emits {} but BEP3 layout is {}", case.frame.short(), show_bytes(&data), show_bytes(&expect)),
        );
        return;
    }
    // (2) parse(data ++ suffix) gives the same message and consumes exactly data.len()
    let mut stream = expect.clone();
    stream.extend_from_slice(&case.suffix);
    let mut crs = Cursor::new(&stream[..]);
    match Frame::parse(&mut crs) {
        Ok(f) => {
            let got = frame_to_r(&f);
            if got != case.frame {
                o.fail(
                    format!("parse-{}", case.frame.kind()),
                    format!("bytes of {} parsed as {}", case.frame.short(), got.short()),
                );
            }
            if crs.position() as usize != expect.len() {
                o.fail(
                    format!("consumed-{}", case.frame.kind()),
                    format!("{}: parser consumed {} bytes of a {}-byte message", case.frame.short(), crs.position(), expect.len()),
                );
            }
            // re-serialisation of the parsed frame
            let re = match &f {
                Frame::Handshake(m) => m.data(),
                Frame::KeepAlive(m) => m.data(),
                Frame::Choke(m) => m.data(),
                Frame::Unchoke(m) => m.data(),
                Frame::Interested(m) => m.data(),
                Frame::NotInterested(m) => m.data(),
                Frame::Have(m) => m.data(),
                Frame::Bitfield(m) => m.data(),
                Frame::Request(m) => m.data(),
                Frame::Piece(m) => m.data(),
                Frame::Cancel(m) => m.data(),
            };
            if re != expect {
                o.fail(
                    format!("reserialise-{}", case.frame.kind()),
                    format!("{}: parsed frame re-serialises to {}", case.frame.short(), show_bytes(&re)),
                );
            }
            if let (Frame::Handshake(h), RFrame::Handshake { info_hash, peer_id, .. }) = (&f, &case.frame) {
                if h.peer_id() != peer_id {
                    o.fail("handshake-peer-id", "peer_id() differs from the id on the wire");
                }
                if h.validate(info_hash, &Some(*peer_id)).is_err() || h.validate(info_hash, &None).is_err() {
                    o.fail("handshake-validate-rejects-own", "validate rejects the very hash/id it was built from");
                }
                for bit in [0usize, 7, 80, 159] {
                    let mut h2 = *info_hash;
                    h2[bit / 8] ^= 0x80 >> (bit % 8);
                    if h.validate(&h2, &None).is_ok() {
                        o.fail("handshake-validate-accepts-other-hash", format!("validate accepts a hash differing in bit {}", bit));
                    }
                    let mut p2 = *peer_id;
                    p2[bit / 8] ^= 0x80 >> (bit % 8);
                    if h.validate(info_hash, &Some(p2)).is_ok() {
                        o.fail("handshake-validate-accepts-other-id", format!("validate accepts an id differing in bit {}", bit));
                    }
                }
            }
            // (3) bitfield both directions
            if let (Frame::Bitfield(b), RFrame::Bitfield(bytes)) = (&f, &case.frame) {
                let n = case.bits.len();
                match b.to_vec(n) {
                    Ok(v) => {
                        if v != case.bits {
                            o.fail("bitfield-to_vec", format!("to_vec({}) does not invert from_vec", n));
                        }
                    }
                    Err(e) => o.fail("bitfield-to_vec-rejects", format!("to_vec({}) rejected own bitfield: {}", n, e)),
                }
                if b.validate(n).is_err() {
                    o.fail("bitfield-validate-rejects", format!("validate({}) rejected a bitfield of {} bytes", n, bytes.len()));
                }
                // every piece count with the same byte count is accepted and agrees with the reference; others rejected
                for m in [n.saturating_sub(8), n.saturating_sub(1), n + 1, n + 8, (n / 8) * 8, (n / 8) * 8 + 1, ((n + 7) / 8) * 8] {
                    let want = wire::bytes_to_bits(bytes, m);
                    let got = b.to_vec(m).ok();
                    if want != got {
                        o.fail("bitfield-to_vec-count", format!("to_vec({}) on a {}-byte bitfield: got {:?}, reference {:?}", m, bytes.len(), got.map(|v| v.len()), want.map(|v| v.len())));
                    }
                    if b.validate(m).is_ok() != (bytes.len() == (m + 7) / 8) {
                        o.fail("bitfield-validate-count", format!("validate({}) wrong on a {}-byte bitfield", m, bytes.len()));
                    }
                }
            }
        }
        Err(e) => o.fail(
            format!("parse-rejects-{}", case.frame.kind()),
            format!("own encoding of {} rejected by Frame::parse: {}", case.frame.short(), e),
        ),
    }
}

fn run(ctx: &WorkerCtx) -> WorkerReport {
    run_proptest(ctx, "roundtrip", strategy(ctx.tier), check)
}

pub fn def() -> PropDef {
    PropDef {
        id: "C07",
        rule: "one generated message of one of the 11 kinds (u32 fields over the full range with edge bias, blocks 0..65527 bytes, arbitrary 20-byte hashes/ids, bit vectors 0..2000 bits) plus a random suffix; checked: Serializer::data == independent BEP3 writer, Frame::parse(data++suffix) returns the same message and consumes exactly its length, re-serialisation identity, Handshake::validate accepts exactly its own hash/id, Bitfield from_vec/to_vec/validate agree with the reference bit mapping for neighbouring piece counts. Non-trivial = a field outside {0,1} or payload > 1 byte; distinct by hash of the case.",
        assumptions: &["reference BEP3 writer/decoder in harness/src/refmodel/wire.rs is trusted"],
        subs: vec![Sub {
            name: "roundtrip",
            cases: |t| t.pick(1_000_000, 10_000_000),
            run,
            replay: |v| replay_case::<Case>(v, check),
            min_class: &[("piece", 0.05), ("bitfield", 0.05), ("handshake", 0.05), ("request", 0.05), ("cancel", 0.05), ("have", 0.05)],
        }],
    }
}
