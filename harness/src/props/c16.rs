//! C16 — The bencode decoder accepts exactly well-formed input, and never panics.

use crate::conv::*;
use crate::engine::*;
use crate::gen::bencode::*;
use crate::gen::{cut, idx};
use crate::refmodel::bencode as rb;
use crate::refmodel::bencode::{ParseErr, RVal};
use proptest::collection::vec;
use proptest::prelude::*;
use rdest::BDecoder;
use serde::{Deserialize, Serialize};

pub const ALPHABET: &[u8] = b"012:ilde-a";

#[derive(Clone, Debug, Serialize, Deserialize)]
pub enum Mut {
    Truncate(u16),
    Delete(u16),
    Insert(u16, u8),
    Replace(u16, u8),
    DupSpan(u16, u16),
    /// replace byte with another digit if it is a digit (length/integer tweak)
    Digit(u16, u8),
    /// rewrite the nearest string length prefix as L + m * 2^k (k in {8,16,32,64}): a decoder with wrapping
    /// arithmetic would see the right length again
    WrapLen(u16, u8, u8),
    /// prepend this many zeros / digits to the nearest digit run
    PadDigits(u16, u8, u8),
    /// the nearest ASCII letter at or after the position changes case (`i` -> `I`, `e` -> `E`, ...): a look-alike of a
    /// structural byte that a sloppy classification would accept
    CaseFlip(u16),
}

#[derive(Clone, Debug, Serialize, Deserialize)]
pub struct Case {
    pub vals: Vec<RVal>,
    pub muts: Vec<Mut>,
}

pub fn apply_muts(doc: &mut Vec<u8>, muts: &[Mut]) {
    for m in muts {
        match m {
            Mut::Truncate(i) => {
                let c = cut(*i, doc.len());
                doc.truncate(c);
            }
            Mut::Delete(i) => {
                if !doc.is_empty() {
                    let k = idx(*i, doc.len());
                    doc.remove(k);
                }
            }
            Mut::Insert(i, b) => {
                let k = cut(*i, doc.len());
                doc.insert(k, *b);
            }
            Mut::Replace(i, b) => {
                if !doc.is_empty() {
                    let k = idx(*i, doc.len());
                    doc[k] = *b;
                }
            }
            Mut::DupSpan(a, b) => {
                let x = cut(*a, doc.len());
                let y = cut(*b, doc.len());
                let (x, y) = (x.min(y), x.max(y));
                let span: Vec<u8> = doc[x..y].to_vec();
                let tail = doc.split_off(y);
                doc.extend_from_slice(&span);
                doc.extend_from_slice(&tail);
            }
            Mut::WrapLen(i, m, k) => {
                if !doc.is_empty() {
                    let at = idx(*i, doc.len());
                    // find "<digits>:" at or after `at`
                    let mut p = at;
                    while p < doc.len() && !doc[p].is_ascii_digit() {
                        p += 1;
                    }
                    let s = p;
                    while p < doc.len() && doc[p].is_ascii_digit() {
                        p += 1;
                    }
                    if s < p && p < doc.len() && doc[p] == b':' && p - s <= 18 {
                        let l: u128 = std::str::from_utf8(&doc[s..p]).unwrap().parse().unwrap_or(0);
                        let shift = [8u32, 16, 32, 64][(*k % 4) as usize];
                        let v = l + ((1 + (*m % 3)) as u128) * (1u128 << shift);
                        let rep = v.to_string().into_bytes();
                        doc.splice(s..p, rep);
                    }
                }
            }
            Mut::PadDigits(i, n, d) => {
                if !doc.is_empty() {
                    let at = idx(*i, doc.len());
                    if let Some(p) = (at..doc.len()).find(|p| doc[*p].is_ascii_digit()) {
                        let pad: Vec<u8> = std::iter::repeat(b'0' + (d % 10)).take(1 + (*n % 24) as usize).collect();
                        doc.splice(p..p, pad);
                    }
                }
            }
            Mut::CaseFlip(i) => {
                if !doc.is_empty() {
                    let k = idx(*i, doc.len());
                    if let Some(p) = (k..doc.len()).find(|p| doc[*p].is_ascii_alphabetic()) {
                        doc[p] ^= 0x20;
                    }
                }
            }
            Mut::Digit(i, d) => {
                if !doc.is_empty() {
                    // nearest digit at or after the position
                    let k = idx(*i, doc.len());
                    if let Some(p) = (k..doc.len()).find(|p| doc[*p].is_ascii_digit()) {
                        doc[p] = b'0' + (d % 10);
                    }
                }
            }
        }
    }
}

fn delim_byte() -> BoxedStrategy<u8> {
    prop_oneof![
        8 => prop::sample::select(b":eild-0123456789".to_vec()),
        1 => prop::sample::select(b"EILD+ \n\t".to_vec()),
        2 => any::<u8>(),
    ]
    .boxed()
}

fn mut_strategy() -> BoxedStrategy<Mut> {
    prop_oneof![
        3 => any::<u16>().prop_map(Mut::Truncate),
        2 => any::<u16>().prop_map(Mut::Delete),
        2 => (any::<u16>(), delim_byte()).prop_map(|(i, b)| Mut::Insert(i, b)),
        2 => (any::<u16>(), delim_byte()).prop_map(|(i, b)| Mut::Replace(i, b)),
        1 => (any::<u16>(), any::<u16>()).prop_map(|(a, b)| Mut::DupSpan(a, b)),
        2 => (any::<u16>(), 0u8..10).prop_map(|(i, d)| Mut::Digit(i, d)),
        1 => (any::<u16>(), any::<u8>(), any::<u8>()).prop_map(|(i, m, k)| Mut::WrapLen(i, m, k)),
        1 => (any::<u16>(), any::<u8>(), 0u8..10).prop_map(|(i, n, d)| Mut::PadDigits(i, n, d)),
        2 => any::<u16>().prop_map(Mut::CaseFlip),
    ]
    .boxed()
}

fn strategy(_tier: Tier) -> BoxedStrategy<Case> {
    (vec(rval_any(24), 0..3), vec(mut_strategy(), 0..4))
        .prop_map(|(vals, muts)| Case { vals, muts })
        .boxed()
}

/// The differential oracle on one byte string. Returns (reference accepted, rdest accepted).
pub fn check_bytes(doc: &[u8], o: &mut Outcome) -> (Option<bool>, bool) {
    let reference = rb::parse_document(doc);
    let got = catch(|| BDecoder::from_array(doc));
    let got = match got {
        Ok(g) => g,
        Err(p) => {
            o.fail(panic_signature(&p), format!("decoder panicked on {}: {}", show_bytes(doc), p));
            return (reference.as_ref().ok().map(|_| true), false);
        }
    };
    match (&reference, &got) {
        (Err(ParseErr::OutOfDomain(_)), _) => {
            o.exclude("number-outside-i64/usize");
            (None, got.is_ok())
        }
        (Ok(rv), Ok(bv)) => {
            if !matches_all(bv, rv) {
                o.fail(
                    "accepted-with-wrong-value",
                    format!("document {} decoded to {:?}, reference {:?}", show_bytes(doc), bv, rv),
                );
            }
            (Some(true), true)
        }
        (Ok(_), Err(e)) => {
            o.fail(
                "rejects-well-formed",
                format!("well-formed document {} rejected: {}", show_bytes(doc), e),
            );
            (Some(true), false)
        }
        (Err(ParseErr::Malformed(pos, why)), Ok(bv)) => {
            o.fail(
                classify_false_accept(doc, bv),
                format!(
                    "malformed document {} (reference: {} at {}) accepted as {:?}",
                    show_bytes(doc),
                    why,
                    pos,
                    bv
                ),
            );
            (Some(false), true)
        }
        (Err(_), Err(_)) => (Some(false), false),
    }
}

/// Signature of an accepted-but-malformed document, computed from the input and rdest's result.
fn classify_false_accept(doc: &[u8], got: &Vec<rdest::BValue>) -> String {
    // F16a: only the closing 'e's of containers open at end of input are missing
    for k in 1..=doc.len() + 1 {
        let mut d = doc.to_vec();
        d.extend(std::iter::repeat(b'e').take(k));
        match rb::parse_document(&d) {
            Ok(rv) => {
                if matches_all(got, &rv) {
                    return "accepts-unterminated-container-at-eof".to_string();
                }
                break;
            }
            Err(ParseErr::Malformed(p, _)) if p >= doc.len() => continue,
            Err(_) => break,
        }
    }
    // F16b: a run of zeros at end of input taken as an empty string although ':' is missing
    if doc.last().map(|b| *b == b'0').unwrap_or(false) {
        for k in 0..=doc.len() + 1 {
            let mut d = doc.to_vec();
            d.push(b':');
            d.extend(std::iter::repeat(b'e').take(k));
            match rb::parse_document(&d) {
                Ok(rv) => {
                    if matches_all(got, &rv) {
                        return if k == 0 {
                            "accepts-zero-length-string-without-colon-at-eof".to_string()
                        } else {
                            "accepts-zero-length-string-without-colon-and-unterminated-container-at-eof".to_string()
                        };
                    }
                    break;
                }
                Err(ParseErr::Malformed(p, _)) if p >= doc.len() => continue,
                Err(_) => break,
            }
        }
    }
    "accepts-malformed".to_string()
}

pub fn check(case: &Case) -> Outcome {
    let mut o = Outcome::new();
    let mut doc = vec![];
    for v in &case.vals {
        rb::write(v, &mut doc);
    }
    apply_muts(&mut doc, &case.muts);
    let container = doc.iter().any(|b| *b == b'l' || *b == b'd');
    let colon = doc.contains(&b':');
    o.nontrivial = container || colon;
    let (r, g) = check_bytes(&doc, &mut o);
    o.class_if(r == Some(true), "reference-accepts");
    o.class_if(r == Some(false), "reference-rejects");
    o.class_if(g, "rdest-accepts");
    o.class_if(!case.muts.is_empty(), "mutated");
    o.class_if(case.muts.iter().any(|m| matches!(m, Mut::WrapLen(..))), "length-rewritten-modulo-2^k");
    o.class_if(case.vals.iter().any(|v| v.has_dup_keys()), "duplicate-keys");
    o
}

fn run_mut(ctx: &WorkerCtx) -> WorkerReport {
    run_proptest(ctx, "mutations", strategy(ctx.tier), check)
}

/// Raw bytes (also the format of fuzz artefacts): replay only.
#[derive(Clone, Debug, Serialize, Deserialize)]
pub struct RawCase {
    pub bytes: Vec<u8>,
}

pub fn check_raw(case: &RawCase) -> Outcome {
    let mut o = Outcome::new();
    o.nontrivial = true;
    check_bytes(&case.bytes, &mut o);
    o
}

fn max_len(t: Tier) -> usize {
    t.pick(8, 10)
}

fn run_exhaustive(ctx: &WorkerCtx) -> WorkerReport {
    let mut rep = WorkerReport {
        sub: "exhaustive".into(),
        ..Default::default()
    };
    let a = ALPHABET.len() as u64;
    let maxlen = max_len(ctx.tier);
    let mut known_hits: std::collections::BTreeMap<String, u64> = Default::default();
    let mut ref_accepts = 0u64;
    let mut excluded = 0u64;
    'outer: for len in 0..=maxlen {
        let total = a.pow(len as u32);
        let mut buf = vec![0u8; len];
        let mut n = ctx.idx as u64;
        while n < total {
            let mut x = n;
            for i in (0..len).rev() {
                buf[i] = ALPHABET[(x % a) as usize];
                x /= a;
            }
            let mut o = Outcome::new();
            let (r, _) = check_bytes(&buf, &mut o);
            rep.evaluations += 1;
            if r == Some(true) {
                ref_accepts += 1;
            }
            excluded += o.excluded.len() as u64;
            for f in &o.fails {
                if ctx.known.contains(&f.signature) {
                    *known_hits.entry(f.signature.clone()).or_insert(0) += 1;
                } else {
                    rep.failure = Some(FailRec {
                        sub: "raw".into(),
                        signature: f.signature.clone(),
                        detail: f.detail.clone(),
                        case: serde_json::to_value(RawCase { bytes: buf.clone() }).unwrap(),
                    });
                    break 'outer;
                }
            }
            if rep.samples.len() < 3 && len == maxlen && r == Some(true) && (buf[0] == b'd' || buf[0] == b'l') {
                rep.samples.push(serde_json::json!(String::from_utf8_lossy(&buf)));
            }
            n += ctx.n as u64;
        }
    }
    if rep.samples.is_empty() {
        rep.samples.push(serde_json::json!("d1:a0:e"));
    }
    rep.distinct_by_construction = rep.evaluations;
    rep.known_hits = known_hits;
    rep.classes.insert("reference-accepts".into(), ref_accepts);
    if excluded > 0 {
        rep.excluded.insert("number-outside-i64/usize".into(), excluded);
    }
    rep.exhaustive = Some(format!(
        "all strings over the alphabet {:?} of length 0..={} (sharded over workers)",
        String::from_utf8_lossy(ALPHABET),
        maxlen
    ));
    rep
}

// ------------------------------------------------------------------ deep nesting (child process: a stack overflow aborts)

#[derive(Clone, Debug, Serialize, Deserialize)]
pub struct DeepCase {
    /// nesting depth
    pub depth: u32,
    /// 0 = lists, 1 = dictionaries (key `a`), 2 = alternating
    pub kind: u8,
    /// closed with the matching number of `e`s (well-formed) or left open (malformed)
    pub closed: bool,
}

fn deep_strategy() -> BoxedStrategy<DeepCase> {
    (prop::sample::select(vec![100u32, 500, 1000, 2000, 5000, 10_000, 20_000, 50_000, 200_000, 1_000_000]), 0u8..3, any::<bool>())
        .prop_map(|(depth, kind, closed)| DeepCase { depth, kind, closed })
        .boxed()
}

pub fn deep_doc(c: &DeepCase) -> Vec<u8> {
    let mut v = Vec::with_capacity(c.depth as usize * 5);
    for k in 0..c.depth {
        let dict = c.kind == 1 || (c.kind == 2 && k % 2 == 1);
        if dict {
            v.extend_from_slice(b"d1:a");
        } else {
            v.push(b'l');
        }
    }
    if c.closed {
        // innermost value: an empty list closes at once, a dictionary needs a value for its key
        let innermost_dict = c.kind == 1 || (c.kind == 2 && c.depth % 2 == 0 && c.depth > 0);
        if innermost_dict {
            v.extend_from_slice(b"le");
        }
        v.extend(std::iter::repeat(b'e').take(c.depth as usize));
    }
    v
}

/// Entry point of the child process (`vcheck --probe-decode <depth> <kind> <closed>`): decode, print the verdict, leave.
pub fn probe_decode_main(depth: u32, kind: u8, closed: bool) -> i32 {
    // a thread with a stack of exactly 8 MiB (the usual main-thread size), whatever `ulimit -s` says here
    let h = std::thread::Builder::new().stack_size(8 << 20).spawn(move || {
        let doc = deep_doc(&DeepCase { depth, kind, closed });
        let r = BDecoder::from_array(&doc);
        // do not run the (equally recursive) destructor of a deep value: the question is the decoder
        let ok = r.is_ok();
        std::mem::forget(r);
        ok
    });
    match h.map(|h| h.join()) {
        Ok(Ok(ok)) => {
            println!("{}", if ok { "accepted" } else { "rejected" });
            0
        }
        _ => 3,
    }
}

/// Nesting as deep as the input is long: the decoder must come back (with a value or an error) instead of taking the
/// process down. Run in a child process because a stack overflow cannot be caught.
pub fn check_deep(c: &DeepCase) -> Outcome {
    let mut o = Outcome::new();
    o.nontrivial = true;
    o.class_if(c.depth >= 10_000, "depth>=10000");
    o.class_if(c.closed, "well-formed");
    let exe = match std::env::current_exe() {
        Ok(e) => e,
        Err(_) => return o,
    };
    let out = std::process::Command::new(exe)
        .arg("--probe-decode")
        .arg(c.depth.to_string())
        .arg(c.kind.to_string())
        .arg(if c.closed { "1" } else { "0" })
        .stdin(std::process::Stdio::null())
        .stderr(std::process::Stdio::null())
        .output();
    let out = match out {
        Ok(x) => x,
        Err(_) => return o,
    };
    use std::os::unix::process::ExitStatusExt;
    if let Some(sig) = out.status.signal() {
        // the harness is built with optimisation level 2; an unoptimised rdest overflows about five times earlier
        let s = if c.depth > 5_000 { "process-killed-by-stack-overflow-on-nesting-deeper-than-5000" } else { "process-killed-by-stack-overflow-on-nesting-up-to-5000" };
        o.fail(s, format!("decoding {} nested {} ({}, {} bytes) killed the process with signal {}", c.depth, ["lists", "dictionaries", "lists and dictionaries"][c.kind as usize % 3], if c.closed { "well-formed" } else { "left open" }, deep_doc(c).len(), sig));
        return o;
    }
    let verdict = String::from_utf8_lossy(&out.stdout).trim().to_string();
    o.class_if(verdict == "accepted", "accepted");
    if c.closed && verdict != "accepted" {
        o.fail("rejects-well-formed", format!("{} levels of well-formed nesting (kind {}) rejected", c.depth, c.kind));
    }
    // (left open: accepted is the known finding accepts-unterminated-container-at-eof; not this sub's subject)
    o
}

pub fn def() -> PropDef {
    PropDef {
        id: "C16",
        rule: "sub deep: nestings of 100..1,000,000 lists / dictionaries / both, closed (well-formed) or left open, decoded in a child process on an 8 MiB stack: the process must not be killed and a well-formed nesting must be accepted (a kill above 5000 levels is the second known finding). Sub exhaustive: every string over the 10-symbol delimiter-rich alphabet up to the length bound (all distinct, all counted non-trivial by construction); sub mutations: 0-2 generated documents (duplicate keys and unsorted dictionaries allowed) with 0-3 byte-level mutations (truncate/delete/insert/replace/duplicate-span/digit tweak), non-trivial = contains a container byte or ':'. Oracle: independent recursive-descent recogniser; rdest must accept exactly when it accepts, with matching values, without panicking.",
        assumptions: &[
            "integers outside i64 and string lengths outside usize are outside the stated domain: skipped and counted under excluded_known",
            "leading zeros in string lengths are legal (C05 treats them as legal encodings)",
            "reference recogniser in harness/src/refmodel/bencode.rs is trusted",
        ],
        subs: vec![
            Sub {
                name: "deep",
                cases: |t| t.pick(64, 640),
                run: |ctx| run_proptest_cfg(ctx, "deep", deep_strategy(), check_deep, 0),
                replay: |v| replay_case::<DeepCase>(v, check_deep),
                min_class: &[("depth>=10000", 0.2)],
            },
            Sub {
                name: "exhaustive",
                cases: |_| 1,
                run: run_exhaustive,
                replay: |v| replay_case::<RawCase>(v, check_raw),
                min_class: &[],
            },
            Sub {
                name: "mutations",
                cases: |t| t.pick(500_000, 6_000_000),
                run: run_mut,
                replay: |v| replay_case::<Case>(v, check),
                min_class: &[("reference-accepts", 0.15), ("reference-rejects", 0.2264), ("mutated", 0.3753)],
            },
            Sub {
                name: "raw",
                cases: |_| 0,
                run: |_| WorkerReport::default(),
                replay: |v| replay_case::<RawCase>(v, check_raw),
                min_class: &[],
            },
        ],
    }
}
