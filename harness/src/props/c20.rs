//! C20 — Silent peers are dropped, live ones are kept and kept alive.

use crate::engine::*;
use crate::refmodel::geometry::*;
use crate::refmodel::wire::{self, RFrame};
use crate::swarm::{self, World};
use proptest::collection::vec;
use proptest::prelude::*;
use rdest::verif::Status;
use serde::{Deserialize, Serialize};
use std::time::Duration;

#[derive(Clone, Copy, Debug, Serialize, Deserialize, PartialEq)]
pub enum Kind {
    KeepAlive,
    Choke,
    Unchoke,
    Interested,
    NotInterested,
    Have,
    Request,
    Cancel,
    UnknownId,
    /// not a message on the connection under test: a second, active peer completes a piece now (the manager then
    /// broadcasts Have and may cancel / re-assign the silent peer's piece)
    HelperDelivers,
}

#[derive(Clone, Debug, Serialize, Deserialize, PartialEq)]
pub enum Start {
    /// handshake (+ bitfield) right after connecting
    HandshakeFirst,
    /// the remote never sends a handshake: only keep-alives may arrive
    NoHandshake,
    /// the remote is silent for this many tenths of a second, then handshakes
    LateHandshake(u32),
}

#[derive(Clone, Debug, Serialize, Deserialize)]
pub struct Case {
    #[serde(default = "default_start")]
    pub start: Start,
    /// tenths of a second between arrivals
    pub arrivals: Vec<(u32, Kind)>,
    pub outgoing: bool,
    pub assign_first: bool,
    /// 0 = none; otherwise the connection's task is not scheduled from 110 s to 110+stall_s s after the start (it is
    /// blocked, e.g. in a write the remote does not read): its first keep-alive tick comes due meanwhile. Such cases
    /// have no scripted arrivals.
    #[serde(default)]
    pub stall_s: u8,
    pub seed: u64,
}

fn default_start() -> Start {
    Start::HandshakeFirst
}

fn strategy() -> BoxedStrategy<Case> {
    let dt = prop_oneof![
        6 => prop::sample::select(vec![5u32, 300, 600, 1190, 1199, 1201, 1210, 2000, 2390, 2410, 3000, 3590, 3610, 5000]),
        // keep-the-connection-alive spacing
        8 => prop::sample::select(vec![300u32, 600, 900, 1100, 1150, 1190]),
        1 => 1u32..4000,
    ];
    let kind = prop_oneof![
        3 => Just(Kind::KeepAlive),
        1 => Just(Kind::Choke),
        1 => Just(Kind::Unchoke),
        2 => Just(Kind::Interested),
        1 => Just(Kind::NotInterested),
        2 => Just(Kind::Have),
        1 => Just(Kind::Request),
        1 => Just(Kind::Cancel),
        1 => Just(Kind::UnknownId),
        2 => Just(Kind::HelperDelivers),
    ];
    // either mixed schedules, or "lively" ones that keep talking for a long time
    let mixed = vec((dt, kind.clone()), 0..30);
    let lively = vec((prop::sample::select(vec![300u32, 600, 900, 1100, 1170, 1180]), prop_oneof![Just(Kind::Have), Just(Kind::Interested), Just(Kind::Choke), Just(Kind::Cancel), Just(Kind::Request), Just(Kind::NotInterested)]), 6..30);
    let start = prop_oneof![
        6 => Just(Start::HandshakeFirst),
        1 => Just(Start::NoHandshake),
        1 => prop::sample::select(vec![300u32, 1190, 1210, 2390, 2410, 3000, 3590]).prop_map(Start::LateHandshake),
    ];
    (start, prop_oneof![3 => mixed, 2 => lively], any::<bool>(), any::<bool>(), any::<u64>(), prop_oneof![7 => Just(0u8), 1 => 15u8..=100])
        .prop_map(|(start, arrivals, outgoing, assign_first, seed, stall_s)| {
            if stall_s > 0 {
                let start = if matches!(start, Start::LateHandshake(_)) { Start::HandshakeFirst } else { start };
                Case { start, arrivals: vec![], outgoing, assign_first, stall_s, seed }
            } else {
                Case { start, arrivals, outgoing, assign_first, stall_s, seed }
            }
        })
        .boxed()
}

/// Decoder for the coverage-guided campaign (fuzz target fz_hist).
pub fn case_from_bytes(data: &[u8]) -> Case {
    let mut r = crate::gen::ByteReader::new(data);
    let start = match r.below(8) {
        0 => Start::NoHandshake,
        1 => Start::LateHandshake(r.pick(&[300u32, 1190, 1210, 2390, 2410, 3000, 3590])),
        _ => Start::HandshakeFirst,
    };
    let outgoing = r.bool();
    let assign_first = r.bool();
    let seed = r.u16() as u64;
    let stall_s = if r.below(8) == 0 { 15 + r.u8() % 86 } else { 0 };
    let mut arrivals = vec![];
    while stall_s == 0 && !r.done() && arrivals.len() < 40 {
        let dt = match r.below(3) {
            0 => r.pick(&[5u32, 300, 600, 1190, 1199, 1201, 1210, 2000, 2390, 2410, 3000, 3590, 3610, 5000]),
            1 => r.pick(&[300u32, 600, 900, 1100, 1150, 1190]),
            _ => 1 + r.u16() as u32 % 4000,
        };
        let kind = r.pick(&[Kind::KeepAlive, Kind::KeepAlive, Kind::Choke, Kind::Unchoke, Kind::Interested, Kind::NotInterested, Kind::Have, Kind::Request, Kind::Cancel, Kind::UnknownId, Kind::HelperDelivers]);
        arrivals.push((dt, kind));
    }
    let start = if stall_s > 0 && matches!(start, Start::LateHandshake(_)) { Start::HandshakeFirst } else { start };
    Case { start, arrivals, outgoing, assign_first, stall_s, seed }
}

const TICK: f64 = 120.0;
const EPS: f64 = 0.5;

pub fn check(c: &Case) -> Outcome {
    let mut o = Outcome::new();
    fresh_cwd();
    let t = Torrent::new(Geometry::single(4, 16, c.seed));
    let ih = t.info_hash();
    let c2 = c.clone();
    let t2 = t.clone();
    let res = swarm::run(c.seed, &t, move |w: &mut World| {
        Box::pin(async move {
            let c = c2;
            w.max_step = Duration::from_secs(1);
            let remote_id = [b'k'; 20];
            let t0 = w.now().as_secs_f64();
            let conn = w.connect(if c.outgoing { Some(remote_id) } else { None });
            let addr = w.conns[conn].addr.clone();
            // start-up traffic: handshake and full bitfield (so that "not interested" never ends the task normally)
            // a second, well-behaved peer that has everything and serves when the schedule says so
            let helper = w.connect(None);
            let mut hview = crate::swarm::PeerView::new();
            w.send_frame(helper, &RFrame::handshake(ih, [b'h'; 20]));
            w.send_frame(helper, &RFrame::Bitfield(wire::bits_to_bytes(&[true; 4])));
            w.send_frame(helper, &RFrame::Unchoke);
            w.settle().await;
            if let Start::LateHandshake(d) = c.start {
                let mut at = t0 + d as f64 / 10.0;
                let phase = (at - t0) % TICK;
                if phase < 0.3 || phase > TICK - 0.3 {
                    at += 0.7;
                }
                w.advance_to(Duration::from_secs_f64(at)).await;
            }
            let mut start_activity = t0;
            if c.start != Start::NoHandshake && w.handler_alive(conn) {
                w.send_frame(conn, &RFrame::handshake(ih, remote_id));
                w.send_frame(conn, &RFrame::Bitfield(wire::bits_to_bytes(&[true; 4])));
                if c.assign_first {
                    w.send_frame(conn, &RFrame::Unchoke);
                }
                w.settle().await;
                start_activity = w.now().as_secs_f64();
            }
            // activity[0] = last start-up message
            let mut activity_a: Vec<f64> = vec![start_activity]; // known non-keep-alive messages
            let mut activity_b: Vec<f64> = vec![start_activity]; // ... plus unknown-id messages
            let mut when = start_activity;
            let mut near_tick = false;
            let mut helper_delivered = 0usize;
            for (dt, kind) in &c.arrivals {
                when += *dt as f64 / 10.0;
                // stay clear of the client's own ticks: order within one millisecond is select!'s coin
                let phase = (when - t0) % TICK;
                if phase < 0.3 || phase > TICK - 0.3 {
                    when += 0.7;
                }
                let phase = (when - t0) % TICK;
                if phase < 1.5 || phase > TICK - 1.5 {
                    near_tick = true;
                }
                w.advance_to(Duration::from_secs_f64(when)).await;
                if !w.handler_alive(conn) || w.fatal().is_some() {
                    break;
                }
                if *kind == Kind::HelperDelivers {
                    if w.handler_alive(helper) {
                        let fr = w.take_frames(helper);
                        hview.absorb(&fr);
                        if let Some((i, b, l)) = hview.outstanding.pop_front() {
                            let data = t2.piece(i as usize)[b as usize..(b + l) as usize].to_vec();
                            w.send_frame(helper, &RFrame::Piece(i, b, data));
                            helper_delivered += 1;
                        }
                        w.settle().await;
                    }
                    continue;
                }
                // before a handshake only keep-alives may arrive (anything else legitimately ends the connection)
                let kind = if c.start == Start::NoHandshake { &Kind::KeepAlive } else { kind };
                let f = match kind {
                    Kind::KeepAlive => RFrame::KeepAlive,
                    Kind::Choke => RFrame::Choke,
                    Kind::Unchoke => RFrame::Unchoke,
                    Kind::Interested => RFrame::Interested,
                    Kind::NotInterested => RFrame::NotInterested,
                    Kind::Have => RFrame::Have(1),
                    Kind::Request => RFrame::Request(0, 0, 4),
                    Kind::Cancel => RFrame::Cancel(0, 0, 4),
                    Kind::UnknownId => RFrame::Unknown(20, vec![1, 2, 3]),
                    Kind::HelperDelivers => unreachable!(),
                };
                w.send_frame(conn, &f);
                w.settle().await;
                let now = w.now().as_secs_f64();
                match kind {
                    Kind::KeepAlive => {}
                    Kind::UnknownId => activity_b.push(now),
                    _ => {
                        activity_a.push(now);
                        activity_b.push(now);
                    }
                }
            }
            if c.stall_s > 0 && w.handler_alive(conn) {
                w.advance_to(Duration::from_secs_f64(t0 + 110.0)).await;
                w.frozen.insert(conn);
                w.advance_to(Duration::from_secs_f64(t0 + 110.0 + c.stall_s as f64)).await;
                w.frozen.remove(&conn);
                w.settle().await;
            }
            // let the silence run out
            let end = w.now() + Duration::from_secs(500);
            w.advance_to(end).await;
            let finished = w.conns[conn].finished_at.map(|d| d.as_secs_f64());
            let reason = w.conns[conn].kill_reason.clone();
            let snap = w.snapshot();
            let in_snapshot = snap.peers.iter().any(|p| p.addr == addr);
            // a reservation that no connected peer stands for (the helper may legitimately hold one)
            let reserved_left = snap.statuses.iter().enumerate().any(|(i, s)| matches!(s, Status::Reserved(_)) && !snap.peers.iter().any(|p| p.piece_index == Some(i)));
            let kas: Vec<f64> = w.conns[conn].frames.iter().filter(|(_, f)| matches!(f, RFrame::KeepAlive)).map(|(t, _)| t.as_secs_f64()).collect();
            (t0, activity_a, activity_b, finished, reason, in_snapshot, reserved_left, kas, w.fatal(), near_tick, w.now().as_secs_f64(), helper_delivered)
        })
    });
    let (t0, act_a, act_b, finished, reason, in_snapshot, reserved_left, kas, fatal, near_tick, end, helper_delivered) = match res {
        Ok(x) => x,
        Err(p) => {
            o.fail(panic_signature(&p), format!("runtime panic: {}", p));
            return o;
        }
    };
    if let Some((sig, d)) = fatal {
        // crashes are C12's/C02's subject; report them here too, under their own signature
        o.fail(sig, d);
        return o;
    }
    let last_a = *act_a.last().unwrap();
    let last_b = *act_b.last().unwrap();
    let max_gap_a = act_a.windows(2).map(|w| w[1] - w[0]).fold(0.0f64, f64::max);
    let lively = act_a.len() >= 4 && max_gap_a < TICK - 1.0 && (last_a - act_a[0]) > 360.0;
    let long_silence = {
        // a silence > 240 s after some activity, inside the schedule
        act_a.windows(2).any(|w| w[1] - w[0] > 240.0)
    };
    o.class_if(lively, "lively>360s-all-gaps<120s");
    o.class_if(near_tick, "arrival-within-1.5s-of-a-tick");
    o.class_if(long_silence, "silence>240s-inside-schedule");
    o.class_if(c.assign_first, "piece-assigned");
    o.class_if(c.stall_s > 0, "task-not-scheduled-across-a-tick");
    o.class_if(c.outgoing, "outgoing");
    o.class_if(helper_delivered > 0, "other-peer-completes-pieces-meanwhile");
    o.class_if(c.start == Start::NoHandshake, "never-handshakes");
    o.class_if(matches!(c.start, Start::LateHandshake(_)), "late-handshake");
    o.class_if(act_a.len() != act_b.len(), "unknown-id-messages");
    o.nontrivial = ((end - t0) > 360.0 && near_tick) || long_silence || lively;

    let timeout_reason = reason.as_deref().map(|r| r.contains("Keep alive timeout")).unwrap_or(false);
    // (1) must close
    let deadline = last_b.max(last_a) + 360.0 + EPS + 1.0;
    match finished {
        None => o.fail(
            "silent-connection-not-closed",
            format!("last message at {:.1}s, still open at {:.1}s (more than 360 s of silence); reason {:?}", last_b, end, reason),
        ),
        Some(f) => {
            if f > deadline {
                o.fail("silent-connection-closed-late", format!("last message at {:.1}s, closed at {:.1}s (> 360 s later)", last_b, f));
            }
            if in_snapshot {
                o.fail("peer-state-not-released", format!("connection closed at {:.1}s but the peer is still registered in the manager", f));
            }
            if reserved_left {
                o.fail("reservation-not-released", format!("connection closed at {:.1}s but a piece is still reserved and no peer is left", f));
            }
            // (2) must not close: every gap between other messages < one interval up to the close
            if timeout_reason {
                let acts_before: Vec<f64> = act_a.iter().copied().filter(|a| *a <= f).collect();
                let gaps_ok = acts_before.windows(2).all(|w| w[1] - w[0] < TICK - EPS);
                let since_last = f - acts_before.last().copied().unwrap_or(t0);
                if gaps_ok && since_last < TICK - EPS {
                    o.fail(
                        "live-connection-closed-for-inactivity",
                        format!("closed for inactivity at {:.1}s although messages arrived at least once per 120 s (last one {:.1}s earlier; arrivals {:?})", f, since_last, acts_before),
                    );
                }
            }
        }
    }
    // (3) one keep-alive per tick while alive
    let close = finished.unwrap_or(end);
    let mut k = 1;
    let mut used = vec![false; kas.len()];
    loop {
        let tick = t0 + TICK * k as f64;
        if tick >= close - EPS {
            break;
        }
        // a tick that came due while the task was not scheduled is served when it runs again
        let stall_end = t0 + 110.0 + c.stall_s as f64;
        let late = if c.stall_s > 0 && tick >= t0 + 110.0 && tick <= stall_end { stall_end - tick } else { 0.0 };
        let hits: Vec<usize> = kas.iter().enumerate().filter(|(_, t)| **t >= tick - EPS && **t <= tick + late + 1.0 + 2.0 * EPS).map(|(i, _)| i).collect();
        if hits.len() != 1 {
            o.fail(
                if hits.is_empty() { "keep-alive-missing-at-tick" } else { "several-keep-alives-at-tick" },
                format!("tick {} at {:.1}s: {} keep-alives read (all keep-alive times {:?}, closed at {:?})", k, tick, hits.len(), kas, finished),
            );
            break;
        }
        used[hits[0]] = true;
        k += 1;
    }
    // keep-alives that belong to no tick (the closing tick may or may not emit one)
    for (i, t) in kas.iter().enumerate() {
        if !used[i] {
            let phase = (t - t0) % TICK;
            let at_tick = phase < 1.0 + 2.0 * EPS || phase > TICK - EPS;
            if !at_tick {
                o.fail("keep-alive-off-schedule", format!("keep-alive read at {:.1}s, not at a multiple of 120 s after the start {:.3}s", t, t0));
            }
        }
    }
    o
}

// ------------------------------------------------------------------ a remote that never stops sending keep-alives

#[derive(Clone, Debug, Serialize, Deserialize)]
pub struct FloodCase {
    /// the harness moves the clock in steps of this many seconds and lets the connection task run in between
    pub step_s: u8,
    pub outgoing: bool,
    /// the remote handshakes first (otherwise nothing but keep-alives ever arrives)
    pub handshake: bool,
    pub seed: u64,
}

fn flood_strategy() -> BoxedStrategy<FloodCase> {
    (prop::sample::select(vec![20u8, 30, 40, 60]), any::<bool>(), prop::bool::weighted(0.8), any::<u64>())
        .prop_map(|(step_s, outgoing, handshake, seed)| FloodCase { step_s, outgoing, handshake, seed })
        .boxed()
}

/// Whenever the connection task looks at its socket there are more keep-alives to read, for the whole run: before
/// every poll of the task the harness fills the socket (2 MB send buffer) with keep-alives, and the task is polled with
/// a cooperative-scheduling budget of 8 reads, so a poll ends because the budget is used up, never because the socket is
/// empty (in production: a remote saturating the link, 128 reads of 64 KiB per poll). That is still "nothing but
/// keep-alives": the connection must be closed after three intervals and the client must send its own keep-alives.
pub fn check_flood(c: &FloodCase) -> Outcome {
    use std::io::Write;
    use std::os::unix::io::AsRawFd;
    let mut o = Outcome::new();
    o.nontrivial = true;
    fresh_cwd();
    let t = Torrent::new(Geometry::single(4, 16, c.seed));
    let ih = t.info_hash();
    let c2 = c.clone();
    let res = swarm::run(c.seed, &t, move |w: &mut World| {
        Box::pin(async move {
            let c = c2;
            let remote_id = [b'k'; 20];
            let t0 = w.now().as_secs_f64();
            let conn = w.connect(if c.outgoing { Some(remote_id) } else { None });
            let addr = w.conns[conn].addr.clone();
            if let Some(sock) = w.conns[conn].sock.as_ref() {
                let v: libc::c_int = 2 * 1024 * 1024;
                unsafe {
                    libc::setsockopt(sock.as_raw_fd(), libc::SOL_SOCKET, libc::SO_SNDBUF, &v as *const _ as *const libc::c_void, std::mem::size_of::<libc::c_int>() as libc::socklen_t);
                }
            }
            if c.handshake {
                w.send_frame(conn, &RFrame::handshake(ih, remote_id));
                w.send_frame(conn, &RFrame::Bitfield(wire::bits_to_bytes(&[true; 4])));
            }
            w.settle().await;
            let chunk = vec![0u8; 64 * 1024];
            let mut written = 0u64;
            let mut min_fill = u64::MAX;
            let step = Duration::from_secs(c.step_s as u64);
            while w.now().as_secs_f64() < t0 + 600.0 && w.handler_alive(conn) && w.fatal().is_none() {
                tokio::time::advance(step).await;
                for _ in 0..2 {
                    // fill the socket with keep-alives (always whole ones)
                    let mut fill = 0u64;
                    if let Some(sock) = w.conns[conn].sock.as_mut() {
                        loop {
                            match sock.write(&chunk) {
                                Ok(n) => {
                                    fill += n as u64;
                                    if n % 4 != 0 {
                                        // finish the cut keep-alive
                                        let rest = 4 - n % 4;
                                        let mut done = 0;
                                        while done < rest {
                                            match sock.write(&chunk[..rest - done]) {
                                                Ok(k) => done += k,
                                                Err(_) => std::thread::yield_now(),
                                            }
                                        }
                                    }
                                }
                                Err(_) => break,
                            }
                        }
                    }
                    written += fill;
                    w.poll_once_with_budget(8).await;
                }
                let _ = &mut min_fill;
            }
            w.settle().await;
            let finished = w.conns[conn].finished_at.map(|d| d.as_secs_f64());
            let reason = w.conns[conn].kill_reason.clone();
            let in_snapshot = w.snapshot().peers.iter().any(|p| p.addr == addr);
            let kas: Vec<f64> = w.conns[conn].frames.iter().filter(|(_, f)| matches!(f, RFrame::KeepAlive)).map(|(t, _)| t.as_secs_f64()).collect();
            (t0, finished, reason, in_snapshot, kas, written, w.fatal(), w.now().as_secs_f64())
        })
    });
    let (t0, finished, reason, in_snapshot, kas, written, fatal, end) = match res {
        Ok(x) => x,
        Err(p) => {
            o.fail(panic_signature(&p), format!("runtime panic: {}", p));
            return o;
        }
    };
    if let Some((sig, d)) = fatal {
        o.fail(sig, d);
        return o;
    }
    if std::env::var("VERIF_DEBUG").is_ok() {
        eprintln!("flood: written {} finished {:?} kas {:?}", written, finished, kas);
    }
    o.class_if(written > 4_000_000, "more-than-4MB-of-keep-alives");
    o.class_if(c.outgoing, "outgoing");
    o.class_if(!c.handshake, "never-handshakes");
    let slack = c.step_s as f64 + EPS;
    match finished {
        None => o.fail(
            "silent-connection-not-closed",
            format!("a remote that sends nothing but keep-alives ({} bytes of them, without pause) is still connected {:.0} s after the start; reason {:?}", written, end - t0, reason),
        ),
        Some(f) => {
            if f > t0 + 360.0 + slack {
                o.fail("silent-connection-closed-late", format!("nothing but keep-alives arrived; closed {:.1} s after the start (> 360 s + one step of {} s)", f - t0, c.step_s));
            }
            if in_snapshot {
                o.fail("peer-state-not-released", format!("connection closed at {:.1}s but the peer is still registered in the manager", f));
            }
        }
    }
    let close = finished.unwrap_or(end);
    for k in 1..=2 {
        let tick = t0 + TICK * k as f64;
        if tick + slack < close && !kas.iter().any(|t| *t >= tick - EPS && *t <= tick + slack) {
            o.fail("keep-alive-missing-at-tick", format!("no keep-alive from the client between {:.0} s and {:.0} s (its keep-alives: {:?}) while the remote floods keep-alives", tick - t0, tick - t0 + slack, kas));
            break;
        }
    }
    o
}

pub fn def() -> PropDef {
    PropDef {
        id: "C20",
        rule: "one remote peer on the swarm runtime under tokio's paused clock: the remote handshakes at once, never (only keep-alives arrive), or after 30..359 s of silence; valid handshake + full bitfield (+ optional unchoke so that a piece gets reserved), a second, active peer that holds everything is connected as well and completes a piece whenever the schedule says so (its completions make the manager broadcast Have and cancel / re-assign the silent peer's piece); then up to 30 arrivals (delta-t from {0.5,30,60,119,119.9,120.1,121,200,239,241,300,359,361,500} s and lively spacings 30..119.5 s; kind from keep-alive, choke, unchoke, interested, not-interested, have, request, cancel, unknown-id message), arrivals nudged 0.7 s away from the client's own ticks; in one case out of eight there are no arrivals and the connection's task is instead not scheduled from 110 s to 125..210 s after the start (its first keep-alive tick comes due meanwhile and is served late; the later ticks must stay on the 120 s grid); then 500 s of silence. Oracle from a small reference reading of the statement: closed by last-other-message + 360 s (+1.5 s), peer forgotten and reservation released; never closed for inactivity while every gap between other messages is < 120 s; exactly one keep-alive read at each t0+120k s while alive, none off schedule. Silences between 120 s and 360 s and the role of unknown-id messages are deliberately unasserted (both readings accepted). Non-trivial = a schedule longer than 360 s with an arrival within 1.5 s of a tick, or a silence > 240 s inside the schedule, or a lively schedule > 360 s; distinct by hash of the case.",
        assumptions: &[
            "virtual time: tokio's paused clock; the harness drains sockets every virtual second, so keep-alive timestamps are accurate to 1 s",
            "arrivals closer than 0.3 s to a client tick are moved: their order against the tick is decided by select!'s internal coin",
        ],
        subs: vec![
            Sub {
                name: "flood",
                cases: |t| t.pick(32, 320),
                run: |ctx| run_proptest(ctx, "flood", flood_strategy(), check_flood),
                replay: |v| replay_case::<FloodCase>(v, check_flood),
                min_class: &[("more-than-4MB-of-keep-alives", 0.5)],
            },
            Sub {
            name: "schedules",
            cases: |t| t.pick(15_000, 200_000),
            run: |ctx| run_proptest(ctx, "schedules", strategy(), check),
            replay: |v| replay_case::<Case>(v, check),
            min_class: &[("lively>360s-all-gaps<120s", 0.05), ("arrival-within-1.5s-of-a-tick", 0.1822), ("silence>240s-inside-schedule", 0.0703), ("piece-assigned", 0.15), ("never-handshakes", 0.05), ("late-handshake", 0.05), ("other-peer-completes-pieces-meanwhile", 0.07), ("task-not-scheduled-across-a-tick", 0.05)],
        },
        ],
    }
}
