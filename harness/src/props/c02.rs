//! C02 — An honest swarm always leads to a complete, identical download.
//! Layer 1 (this file, sub `swarm`): real connection tasks + real manager on the deterministic swarm runtime, virtual time.
//! Layer 2 (e2e.rs, sub `process`): unmodified Session::run() in a real process.

use crate::engine::*;
use crate::gen::idx;
use crate::net::Net;
use crate::refmodel::geometry::*;
use crate::refmodel::wire::{self, RFrame};
use crate::rt;
use crate::swarm::{self, World};
use proptest::collection::vec;
use proptest::prelude::*;
use rdest::verif::Status;
use serde::{Deserialize, Serialize};
use std::time::Duration;

#[derive(Clone, Debug, Serialize, Deserialize)]
pub struct PeerSpec {
    pub pieces_seed: u64,
    pub essential: bool,
    /// fraction (0..=255) of its pieces announced later by Have instead of in the bitfield
    pub via_have: u8,
    pub unchoke_delay_s: u8,
    pub outgoing: bool,
    /// the peer is itself a downloader: it declares interest in the client
    #[serde(default)]
    pub interested: bool,
    /// answers to requests the client cancels are already in flight and arrive anyway
    #[serde(default)]
    pub late_blocks: bool,
    /// the peer answers the newest outstanding request first (BEP3 does not promise answers in request order)
    #[serde(default)]
    pub newest_first: bool,
}

#[derive(Clone, Debug, Serialize, Deserialize)]
pub enum Act {
    Serve(u8),
    Choke,
    Unchoke,
    KeepAlive,
    Unknown,
    HaveNext,
    Disconnect,
    Idle(u8),
    /// the scheduler does not run this connection's task for the next n script steps (a task may be delayed
    /// arbitrarily, e.g. while it is still connecting); everything sent to it meanwhile waits in its socket / channels
    Stall(u8),
}

#[derive(Clone, Debug, Serialize, Deserialize)]
pub struct Case {
    pub geo: Geometry,
    pub peers: Vec<PeerSpec>,
    pub script: Vec<(u16, Act)>,
    /// 0 = never cut; otherwise messages are cut with probability cut_rate/255
    pub cut_rate: u8,
    pub seed: u64,
}

fn geo_strategy(tier: Tier) -> BoxedStrategy<Geometry> {
    let pl = match tier {
        Tier::Quick => prop::sample::select(vec![1usize, 3, 64, 1000, 16384, 16385, 20000]),
        Tier::Thorough => prop::sample::select(vec![1usize, 3, 64, 1000, 16383, 16384, 16385, 20000, 32768, 40000]),
    };
    (pl, any::<bool>(), any::<u64>())
        .prop_flat_map(|(pl, multi, seed)| {
            let nfiles = if multi { 1usize..=5 } else { 1usize..=1 };
            let maxtotal = if pl >= 1000 { 6 * pl } else if pl <= 3 { 90 * pl } else { 30 * pl };
            let flen = prop_oneof![1 => Just(0usize), 3 => 1..=maxtotal / 2, 2 => 1..=std::cmp::max(1, pl / 2), 1 => Just(pl), 1 => Just(2 * pl)];
            (Just(pl), Just(multi), Just(seed), vec((flen, vec(0u8..3, 0..2)), nfiles))
        })
        .prop_map(|(pl, multi, seed, fl)| {
            let mut files: Vec<(String, usize)> = fl
                .iter()
                .enumerate()
                .map(|(k, (l, dirs))| {
                    let mut p = String::new();
                    for d in dirs {
                        p.push_str(&format!("d{}/", d));
                    }
                    p.push_str(&format!("f{}", k));
                    (p, *l)
                })
                .collect();
            // at least one byte of content
            if files.iter().map(|f| f.1).sum::<usize>() == 0 {
                files[0].1 = 1;
            }
            let name = if multi { "out".to_string() } else { files[0].0.clone() };
            Geometry { piece_len: pl, files, multi, name, content_seed: seed }
        })
        .boxed()
}

fn strategy(tier: Tier) -> BoxedStrategy<Case> {
    let peer = (any::<u64>(), prop::bool::weighted(0.5), prop_oneof![Just(0u8), any::<u8>()], 0u8..60, any::<bool>(), prop::bool::weighted(0.4), prop::bool::weighted(0.5), prop::bool::weighted(0.3))
        .prop_map(|(pieces_seed, essential, via_have, unchoke_delay_s, outgoing, interested, late_blocks, newest_first)| PeerSpec { pieces_seed, essential, via_have, unchoke_delay_s, outgoing, interested, late_blocks, newest_first });
    let act = prop_oneof![
        8 => (1u8..4).prop_map(Act::Serve),
        1 => (30u8..70).prop_map(Act::Serve),
        1 => Just(Act::Choke),
        3 => Just(Act::Unchoke),
        1 => Just(Act::KeepAlive),
        1 => Just(Act::Unknown),
        2 => Just(Act::HaveNext),
        1 => Just(Act::Disconnect),
        1 => (0u8..30).prop_map(Act::Idle),
        1 => (1u8..60).prop_map(Act::Stall),
    ];
    (geo_strategy(tier), vec(peer, 1..=4), vec((any::<u16>(), act), 0..50), prop_oneof![Just(0u8), any::<u8>()], any::<u64>())
        .prop_map(|(geo, mut peers, script, cut_rate, seed)| {
            peers[0].essential = true;
            if seed % 12 == 0 {
                // template "late runner": many tiny pieces; the second peer's task is not scheduled while the first peer
                // delivers dozens of pieces (more completions than any internal queue holds), then it runs again
                let n = 40 + (seed >> 8) as usize % 50;
                let geo = Geometry::single(1, n, seed);
                let mk = |s: u64| PeerSpec { pieces_seed: s, essential: true, via_have: 0, unchoke_delay_s: 0, outgoing: s % 2 == 0, interested: false, late_blocks: false, newest_first: false };
                let peers = vec![mk(seed | 1), mk(seed >> 3)];
                let mut pre: Vec<(u16, Act)> = vec![(65535, Act::Stall(6)), (0, Act::Unchoke), (0, Act::Serve(69)), (0, Act::Serve(69)), (0, Act::Serve(69)), (0, Act::Idle(1))];
                pre.extend(script);
                return Case { geo, peers, script: pre, cut_rate: 0, seed };
            }
            Case { geo, peers, script, cut_rate, seed }
        })
        .boxed()
}

struct Rng(u64);
impl Rng {
    fn next(&mut self) -> u64 {
        self.0 ^= self.0 << 13;
        self.0 ^= self.0 >> 7;
        self.0 ^= self.0 << 17;
        self.0
    }
}

struct Honest {
    spec: PeerSpec,
    p: usize,
    has: Vec<bool>,
    pending_haves: Vec<usize>,
    unchoke_at: Option<Duration>,
    reconnects: usize,
    closed_by_us: bool,
}

struct Ctx {
    rng: Rng,
    cut_rate: u8,
    cuts_inside_prefix: usize,
    cuts_total: usize,
    /// last segment of a cut message that has not been sent yet, per connection, with the number of script steps it
    /// has been held: the rest of a message may arrive after other peers' traffic and after the client's own timers
    held: std::collections::BTreeMap<usize, (Vec<u8>, u8)>,
    held_total: usize,
}

impl Ctx {
    /// Send bytes on a connection, possibly cut into segments with barriers in between.
    async fn send(&mut self, w: &mut World, net: &mut Net, conn: usize, bytes: &[u8]) {
        // what is still held back for this connection goes first
        if let Some((tail, _)) = self.held.remove(&conn) {
            w.send(conn, &tail);
        }
        if self.cut_rate == 0 || bytes.len() < 2 || (self.rng.next() % 255) as u8 >= self.cut_rate {
            w.send(conn, bytes);
            return;
        }
        let ncuts = 1 + (self.rng.next() % 3) as usize;
        let mut cuts: Vec<usize> = (0..ncuts)
            .map(|_| {
                let r = self.rng.next();
                if r % 3 == 0 {
                    1 + (r >> 8) as usize % 4.min(bytes.len() - 1) // inside the length prefix
                } else {
                    1 + (r >> 8) as usize % (bytes.len() - 1)
                }
            })
            .collect();
        cuts.sort();
        cuts.dedup();
        let mut at = 0;
        for c in cuts {
            w.send(conn, &bytes[at..c]);
            at = c;
            self.cuts_total += 1;
            if c < 4 {
                self.cuts_inside_prefix += 1;
            }
            if self.rng.next() % 2 == 0 {
                w.settle().await;
                net.fold(w);
            }
        }
        if at > 0 && self.rng.next() % 4 == 0 {
            // the last segment stays behind until the end of the next script step
            self.held.insert(conn, (bytes[at..].to_vec(), 0));
            self.held_total += 1;
            w.settle().await;
            net.fold(w);
            return;
        }
        w.send(conn, &bytes[at..]);
    }

    /// End of a script step: segments held since the previous step are sent now.
    fn end_of_step(&mut self, w: &mut World, all: bool) {
        let due: Vec<usize> = self.held.iter().filter(|(_, (_, age))| all || *age >= 1).map(|(c, _)| *c).collect();
        for c in due {
            if let Some((tail, _)) = self.held.remove(&c) {
                w.send(c, &tail);
            }
        }
        for (_, (_, age)) in self.held.iter_mut() {
            *age += 1;
        }
    }
}

pub fn check(c: &Case) -> Outcome {
    let mut o = Outcome::new();
    let cwd = fresh_cwd();
    let t = Torrent::new(c.geo.clone());
    let n = c.geo.pieces_num();
    if c.seed % 8 == 3 {
        // a restart: damaged piece files of an earlier run are in the directory
        t.write_damaged_leftovers(c.seed);
        o.class("damaged-leftover-piece-files");
    }
    let c2 = c.clone();
    let t2 = t.clone();
    let res = swarm::run(c.seed, &t, move |w: &mut World| {
        Box::pin(async move {
            let c = c2;
            let t = t2;
            let mut net = Net::new(&t);
            let mut classes: Vec<&'static str> = vec![];
            let mut fails: Vec<(String, String)> = vec![];
            let mut ctx = Ctx { rng: Rng(c.seed | 1), cut_rate: c.cut_rate, cuts_inside_prefix: 0, cuts_total: 0, held: Default::default(), held_total: 0 };
            // piece distribution: every piece lives on at least one essential peer
            let ess: Vec<usize> = (0..c.peers.len()).filter(|i| c.peers[*i].essential).collect();
            let mut hs: Vec<Honest> = vec![];
            for (k, spec) in c.peers.iter().enumerate() {
                let mut r = Rng(spec.pieces_seed | 1);
                let mut has: Vec<bool> = (0..n).map(|_| r.next() % 3 != 0).collect();
                for i in 0..n {
                    if ess[(i + (c.seed as usize % 7)) % ess.len()] == k {
                        has[i] = true;
                    }
                }
                hs.push(Honest { spec: spec.clone(), p: usize::MAX, has, pending_haves: vec![], unchoke_at: None, reconnects: 0, closed_by_us: false });
            }

            // (re)connect an honest peer: handshake, bitfield (possibly partial), the rest as pending Haves
            async fn join(w: &mut World, net: &mut Net, ctx: &mut Ctx, h: &mut Honest, t: &Torrent) {
                let p = net.connect(w, h.spec.outgoing);
                h.p = p;
                h.closed_by_us = false;
                let conn = net.peers[p].conn;
                let id = net.peers[p].id;
                let hsb = wire::encode(&RFrame::handshake(t.info_hash(), id));
                ctx.send(w, net, conn, &hsb).await;
                net.peers[p].sent_handshake = true;
                let mut r = Rng(h.spec.pieces_seed ^ 0x55aa | 1);
                let mut bits = h.has.clone();
                h.pending_haves.clear();
                for i in 0..bits.len() {
                    if bits[i] && ((r.next() % 255) as u8) < h.spec.via_have {
                        bits[i] = false;
                        h.pending_haves.push(i);
                    }
                }
                let bf = wire::encode(&RFrame::Bitfield(wire::bits_to_bytes(&bits)));
                ctx.send(w, net, conn, &bf).await;
                net.peers[p].advertised = bits;
                net.peers[p].sent_bitfield = true;
                if h.spec.interested {
                    let b = wire::encode(&RFrame::Interested);
                    ctx.send(w, net, conn, &b).await;
                    net.peers[p].interested_in_client = true;
                }
                h.unchoke_at = Some(w.now() + Duration::from_secs(h.spec.unchoke_delay_s as u64));
            }

            for k in 0..hs.len() {
                let mut h = hs.remove(k);
                join(w, &mut net, &mut ctx, &mut h, &t).await;
                hs.insert(k, h);
                net.observe(w).await;
            }

            // serve up to `max` outstanding requests of one peer
            async fn serve(w: &mut World, net: &mut Net, ctx: &mut Ctx, h: &Honest, t: &Torrent, max: usize) -> usize {
                let mut served = 0;
                while served < max {
                    let peer = &mut net.peers[h.p];
                    if peer.chokes_client {
                        peer.view.outstanding.clear();
                        break;
                    }
                    let first = if h.spec.newest_first { peer.view.outstanding.pop_back() } else { peer.view.outstanding.pop_front() };
                    let next = match first {
                        Some(r) => Some(r),
                        None if h.spec.late_blocks => peer.view.cancelled_pending.pop_front(),
                        None => None,
                    };
                    let (i, b, l) = match next {
                        Some(r) => r,
                        None => break,
                    };
                    let piece = t.piece(i as usize);
                    let e = (b as usize + l as usize).min(piece.len());
                    let data = piece[(b as usize).min(e)..e].to_vec();
                    let bytes = wire::encode(&RFrame::Piece(i, b, data));
                    let conn = peer.conn;
                    ctx.send(w, net, conn, &bytes).await;
                    served += 1;
                }
                served
            }

            let horizon = Duration::from_secs(3600);
            let all_have = |w: &World| w.snapshot().statuses.iter().all(|s| *s == Status::Have);
            let mut disconnected_nonessential = false;

            // ---- scripted phase
            let mut stalled: Vec<(usize, usize)> = vec![];
            for (who, act) in c.script.iter() {
                // delayed tasks resume after their number of steps
                for s in stalled.iter_mut() {
                    s.1 = s.1.saturating_sub(1);
                }
                for (cn, _) in stalled.iter().filter(|s| s.1 == 0) {
                    w.frozen.remove(cn);
                }
                stalled.retain(|s| s.1 > 0);
                if w.fatal().is_some() || all_have(w) {
                    break;
                }
                let live: Vec<usize> = (0..hs.len()).filter(|k| hs[*k].p != usize::MAX && net.alive(w, hs[*k].p)).collect();
                if live.is_empty() {
                    break;
                }
                let k = live[idx(*who, live.len())];
                let conn = net.peers[hs[k].p].conn;
                match act {
                    Act::Serve(m) => {
                        // up to m blocks, one after the other: the client's next requests arrive in between
                        let mut served = 0usize;
                        while served < *m as usize {
                            let h = &hs[k];
                            let n = serve(w, &mut net, &mut ctx, h, &t, 1).await;
                            net.observe(w).await;
                            if n == 0 || w.fatal().is_some() {
                                break;
                            }
                            served += n;
                        }
                    }
                    Act::Choke => {
                        let b = wire::encode(&RFrame::Choke);
                        ctx.send(w, &mut net, conn, &b).await;
                        net.peers[hs[k].p].chokes_client = true;
                        net.peers[hs[k].p].view.outstanding.clear();
                        // an honest peer unchokes again later
                        hs[k].unchoke_at = Some(w.now() + Duration::from_secs(hs[k].spec.unchoke_delay_s as u64));
                        classes.push("choke-then-unchoke-later");
                    }
                    Act::Unchoke => {
                        if net.peers[hs[k].p].chokes_client {
                            let b = wire::encode(&RFrame::Unchoke);
                            ctx.send(w, &mut net, conn, &b).await;
                            net.peers[hs[k].p].chokes_client = false;
                            hs[k].unchoke_at = None;
                        }
                    }
                    Act::KeepAlive => {
                        let b = wire::encode(&RFrame::KeepAlive);
                        ctx.send(w, &mut net, conn, &b).await;
                    }
                    Act::Unknown => {
                        let b = wire::encode(&RFrame::Unknown(20, vec![0, 1, 2, 3, 4]));
                        ctx.send(w, &mut net, conn, &b).await;
                        classes.push("unknown-id-message");
                    }
                    Act::HaveNext => {
                        if let Some(i) = hs[k].pending_haves.pop() {
                            let b = wire::encode(&RFrame::Have(i as u32));
                            ctx.send(w, &mut net, conn, &b).await;
                            net.peers[hs[k].p].advertised[i] = true;
                            classes.push("piece-announced-by-have");
                        }
                    }
                    Act::Disconnect => {
                        if !hs[k].spec.essential {
                            net.disconnect(w, hs[k].p);
                            hs[k].closed_by_us = true;
                            disconnected_nonessential = true;
                        }
                    }
                    Act::Idle(s) => {
                        w.advance_by(Duration::from_secs(*s as u64)).await;
                    }
                    Act::Stall(nsteps) => {
                        w.frozen.insert(conn);
                        stalled.push((conn, *nsteps as usize));
                        classes.push("task-delayed-by-the-scheduler");
                    }
                }
                net.observe(w).await;
                // due unchokes
                for h in hs.iter_mut() {
                    if h.p != usize::MAX && net.alive(w, h.p) && net.peers[h.p].chokes_client {
                        if let Some(at) = h.unchoke_at {
                            if w.now() >= at {
                                let conn = net.peers[h.p].conn;
                                if let Some((tail, _)) = ctx.held.remove(&conn) {
                                    w.send(conn, &tail);
                                }
                                w.send_frame(conn, &RFrame::Unchoke);
                                net.peers[h.p].chokes_client = false;
                                h.unchoke_at = None;
                            }
                        }
                    }
                }
                net.observe(w).await;
                ctx.end_of_step(w, false);
            }

            w.frozen.clear();
            ctx.end_of_step(w, true);
            net.observe(w).await;
            // ---- autopilot: every surviving honest peer behaves: announces the rest, unchokes when due, serves everything;
            // an essential peer the client dropped is handed out again (as the tracker would)
            let mut rounds = 0usize;
            let mut idle_s = 0u64;
            let mut max_idle_s = 0u64;
            let mut stall_kind = "";
            while w.fatal().is_none() && !all_have(w) && w.now() < horizon {
                rounds += 1;
                let mut progress = false;
                if !ctx.held.is_empty() {
                    // in this phase a held-back segment follows after one round at the latest
                    ctx.end_of_step(w, true);
                    progress = true;
                }
                for k in 0..hs.len() {
                    if hs[k].p == usize::MAX {
                        continue;
                    }
                    let alive = net.alive(w, hs[k].p);
                    if !alive {
                        if hs[k].spec.essential && !hs[k].closed_by_us && hs[k].reconnects < 12 {
                            let mut h = hs.remove(k);
                            h.reconnects += 1;
                            h.spec.via_have = 0;
                            h.spec.unchoke_delay_s = h.spec.unchoke_delay_s.min(10);
                            join(w, &mut net, &mut ctx, &mut h, &t).await;
                            hs.insert(k, h);
                            net.observe(w).await;
                            classes.push("essential-peer-reconnected");
                            progress = true;
                        }
                        continue;
                    }
                    let conn = net.peers[hs[k].p].conn;
                    while let Some(i) = hs[k].pending_haves.pop() {
                        let b = wire::encode(&RFrame::Have(i as u32));
                        ctx.send(w, &mut net, conn, &b).await;
                        net.peers[hs[k].p].advertised[i] = true;
                        progress = true;
                    }
                    if net.peers[hs[k].p].chokes_client {
                        let due = hs[k].unchoke_at.map(|at| w.now() >= at).unwrap_or(true);
                        if due {
                            if let Some((tail, _)) = ctx.held.remove(&conn) {
                                w.send(conn, &tail);
                            }
                            w.send_frame(conn, &RFrame::Unchoke);
                            net.peers[hs[k].p].chokes_client = false;
                            hs[k].unchoke_at = None;
                            progress = true;
                        }
                    }
                    net.observe(w).await;
                    let h = &hs[k];
                    if serve(w, &mut net, &mut ctx, h, &t, 64).await > 0 {
                        progress = true;
                    }
                    net.observe(w).await;
                }
                if !progress {
                    w.advance_by(Duration::from_secs(5)).await;
                    net.fold(w);
                    // stall detection: an essential peer is connected, is not choking the client, offers a piece the client
                    // lacks - and nothing moves
                    let snap = w.snapshot();
                    let offered = hs.iter().any(|h| {
                        h.p != usize::MAX
                            && h.spec.essential
                            && net.alive(w, h.p)
                            && !net.peers[h.p].chokes_client
                            && h.pending_haves.is_empty()
                            && (0..snap.statuses.len()).any(|i| net.peers[h.p].advertised[i] && snap.statuses[i] != Status::Have)
                    });
                    if offered {
                        idle_s += 5;
                        if idle_s > max_idle_s {
                            max_idle_s = idle_s;
                            // what kind of stall is it? B: a missing piece is reserved, its fetcher is connected and not choked,
                            // yet nothing is in flight. A: the piece is free, an idle unchoking peer offers it, nobody asks.
                            let reserved_idle = (0..snap.statuses.len()).any(|i| {
                                matches!(snap.statuses[i], Status::Reserved(n) if n > 0)
                                    && snap.peers.iter().any(|ps| {
                                        ps.piece_index == Some(i)
                                            && net.peers.iter().any(|rp| rp.addr == ps.addr && !rp.closed && w.handler_alive(rp.conn) && !rp.chokes_client && rp.view.outstanding.is_empty())
                                    })
                            });
                            stall_kind = if reserved_idle { "B" } else { "A" };
                        }
                    } else {
                        idle_s = 0;
                    }
                } else {
                    idle_s = 0;
                }
                if rounds > 20000 {
                    break;
                }
            }
            let done = all_have(w);
            let elapsed = w.now();
            // honest connections the client terminated with an error
            for h in &hs {
                for rp in net.peers.iter().filter(|rp| rp.id == net.peers[h.p.min(net.peers.len() - 1)].id) {
                    let _ = rp;
                }
            }
            if std::env::var("VERIF_DEBUG").is_ok() {
                for rp in &net.peers {
                    eprintln!("peer {} closed_by_us={} alive={} reason={:?} finished={:?}", rp.addr, rp.closed, w.handler_alive(rp.conn), w.conns[rp.conn].kill_reason, w.conns[rp.conn].finished_at);
                }
                eprintln!("cmds: {:?}", w.cmds.iter().map(|c| format!("{}@{}", c.kind, &c.addr[5..8])).collect::<Vec<_>>());
            }
            for rp in &net.peers {
                if rp.closed {
                    continue;
                }
                if let Some(r) = &w.conns[rp.conn].kill_reason {
                    let benign = r.contains("End job normally") || r.contains("Keep alive timeout");
                    if !benign {
                        fails.push((
                            "honest-connection-terminated-with-error".into(),
                            format!("connection to honest peer {} was ended by the client: {:?}", rp.addr, r),
                        ));
                    }
                }
            }
            if c.peers.iter().any(|p| p.interested) {
                classes.push("peer-interested-in-client");
            }
            let two_peers = c.peers.len() >= 2;
            if two_peers {
                classes.push(">=2-peers");
            }
            if disconnected_nonessential {
                classes.push("non-essential-peer-disconnected");
            }
            if ctx.cuts_total > 0 {
                classes.push("stream-cut-inside-a-message");
            }
            if ctx.held_total > 0 {
                classes.push("rest-of-a-message-arrives-after-other-traffic");
            }
            if ctx.cuts_inside_prefix > 0 {
                classes.push("cut-inside-length-prefix");
            }
            if max_idle_s >= 200 {
                if stall_kind == "B" {
                    fails.push((
                        "stall-reserved-piece-not-being-fetched".into(),
                        format!("for {} virtual seconds nothing was requested or delivered although a missing piece is reserved for a connected peer that is not choking the client and has no request outstanding (statuses {:?})", max_idle_s, w.snapshot().statuses),
                    ));
                } else {
                    fails.push((
                        "stall-free-piece-not-requested-from-idle-unchoking-peer".into(),
                        format!("for {} virtual seconds nothing was requested or delivered although an honest peer was connected, not choking the client and offering a piece that is neither owned nor reserved; the download resumed only after that idle connection was dropped for inactivity and the peer reconnected (final statuses {:?})", max_idle_s, w.snapshot().statuses),
                    ));
                }
            }
            if max_idle_s >= 60 {
                classes.push("idle>=60s-with-offer");
            }
            (fails, classes, w.fatal(), done, elapsed, w.snapshot().statuses)
        })
    });
    match res {
        Err(p) => o.fail(panic_signature(&p), format!("runtime panic: {}", p)),
        Ok((fails, classes, fatal, done, elapsed, statuses)) => {
            for cl in classes {
                o.class(cl);
            }
            o.class_if(c.geo.multi, "multi-file");
            o.class_if(c.peers.iter().any(|p| p.newest_first) && c.geo.piece_len > 16384, "answers-out-of-request-order");
            o.class_if(c.geo.files.iter().any(|f| f.1 == 0), "zero-length-file");
            o.class_if(elapsed > Duration::from_secs(360), "took-longer-than-6-virtual-minutes");
            for (s, d) in fails {
                o.fail(s, d);
            }
            if let Some((s, d)) = fatal {
                o.fail(s, d);
            } else if !done {
                o.fail(
                    "download-incomplete-at-horizon",
                    format!("after {:?} of virtual time with every piece offered by a protocol-following peer the statuses are {:?}", elapsed, statuses),
                );
            } else if o.ok() {
                let m = t.metainfo().unwrap();
                match catch(|| rt::run_extractor(&m)) {
                    Ok(Ok(())) => {
                        for (path, start, len) in t.file_spans() {
                            let full = if c.geo.multi { format!("{}/{}", c.geo.name, path) } else { path.clone() };
                            match std::fs::read(cwd.join(&full)) {
                                Ok(data) => {
                                    if data != t.content[start..start + len] {
                                        o.fail("output-file-differs", format!("file {} ({} bytes) differs from the original content[{}..{}]", full, data.len(), start, start + len));
                                    }
                                }
                                Err(_) => o.fail("output-file-missing", format!("file {} was not produced", full)),
                            }
                        }
                    }
                    Ok(Err(e)) => o.fail("extraction-fails-after-download", e),
                    Err(p) => o.fail(panic_signature(&p), p),
                }
            }
        }
    }
    o.nontrivial = o.classes.contains(&">=2-peers") && (o.classes.contains(&"non-essential-peer-disconnected") || o.classes.contains(&"stream-cut-inside-a-message"));
    let _ = n;
    o
}

pub fn swarm_sub() -> Sub {
    Sub {
        name: "swarm",
        cases: |t| t.pick(8_000, 100_000),
        run: |ctx| run_proptest(ctx, "swarm", strategy(ctx.tier), check),
        replay: |v| replay_case::<Case>(v, check),
        min_class: &[(">=2-peers", 0.3747), ("non-essential-peer-disconnected", 0.0767), ("stream-cut-inside-a-message", 0.228), ("cut-inside-length-prefix", 0.2), ("multi-file", 0.258), ("piece-announced-by-have", 0.15), ("unknown-id-message", 0.15), ("peer-interested-in-client", 0.2), ("task-delayed-by-the-scheduler", 0.1), ("answers-out-of-request-order", 0.06), ("damaged-leftover-piece-files", 0.05), ("rest-of-a-message-arrives-after-other-traffic", 0.12)],
    }
}

pub fn def() -> PropDef {
    PropDef {
        id: "C02",
        rule: "sub swarm: a consistent torrent geometry (piece length from {1,3,64,1000,16384,16385,20000 (+16383,32768,40000 thorough)}, 1-5 files incl. zero-length and sub-piece files, single/multi-file form) and 1-4 honest peers whose piece sets cover everything on the essential ones; honest peers (some of them downloaders that declare interest in the client, some whose answers to cancelled requests are already in flight) answer every request with the right bytes (30 % of them newest request first), unchoke 0-59 virtual seconds after joining or after having choked, announce pieces by bitfield or partly by later Haves, send keep-alives and unknown-id messages; a generated script of up to 50 moves (serve 1-3 blocks, choke, unchoke, keep-alive, unknown message, have, disconnect of a non-essential peer, idle) picks who moves next; every outgoing message may be cut at generated points (also inside the length prefix) with or without a barrier between segments, and the last segment of a cut message may stay behind until the end of the next script step (other peers' traffic, the manager's broadcasts and the client's timers fall in between); in an eighth of the cases damaged piece files of an earlier run lie in the download directory; afterwards all surviving honest peers serve until done, and an essential peer the client dropped is handed out again. Oracle: all pieces Have within 60 virtual minutes, never 200 virtual seconds without any request or delivery while an honest peer is connected, not choking the client and offering a missing piece (a hang), no task or manager panic, no honest connection ended by the client with an error, and the real Extractor reproduces every file byte for byte. Non-trivial = >= 2 peers and (a non-essential disconnect or a stream cut inside a message); distinct by hash of the case.",
        assumptions: &[
            "liveness is decided up to a horizon of 60 virtual minutes",
            "a dropped essential peer is reachable again (the harness reconnects it, as a tracker would hand it out again)",
        ],
        subs: vec![swarm_sub(), crate::e2e::c02_process_sub()],
    }
}
