//! C05 — The info-hash is the SHA-1 of the exact info value of the file.

use crate::conv::show_bytes;
use crate::engine::*;
use crate::gen::bencode::*;
use crate::refmodel::bencode::{self as rb, NcWriter, RVal};
use crate::refmodel::geometry::sha1;
use proptest::collection::vec;
use proptest::prelude::*;
use serde::{Deserialize, Serialize};

#[derive(Clone, Debug, Serialize, Deserialize)]
pub struct Case {
    pub name: Vec<u8>,
    pub piece_len: i64,
    pub pieces: Vec<u8>,
    /// Some(len) = single-file form, None = multi-file form with `files`
    pub length: Option<i64>,
    pub files: Vec<(i64, Vec<u8>)>,
    pub info_extra: Vec<(Vec<u8>, RVal)>,
    /// rotation applied to the (sorted) key list of info: non-canonical order when != 0
    pub info_rot: u8,
    pub before: Vec<(Vec<u8>, RVal)>,
    pub after: Vec<(Vec<u8>, RVal)>,
    pub out_of_order: bool,
    pub trailing: Vec<RVal>,
    pub lz: Vec<u8>,
}

/// values that contain a dictionary with a key spelled "info" at depth 1..3
fn nested_info_val() -> BoxedStrategy<RVal> {
    let leaf = prop_oneof![
        Just(RVal::Int(1)),
        Just(RVal::s("x")),
        Just(RVal::Dict(vec![(b"name".to_vec(), RVal::s("n"))])),
        rval_any(8),
    ];
    (leaf, 1usize..=3, any::<bool>())
        .prop_map(|(inner, depth, list_wrap)| {
            let mut v = RVal::Dict(vec![(b"info".to_vec(), inner)]);
            for d in 1..depth {
                v = if list_wrap && d == 1 {
                    RVal::List(vec![RVal::Int(0), v])
                } else {
                    RVal::Dict(vec![(b"k".to_vec(), v)])
                };
            }
            v
        })
        .boxed()
}

fn extra_val() -> BoxedStrategy<RVal> {
    prop_oneof![3 => rval_any(12), 2 => nested_info_val()].boxed()
}

fn small_key() -> BoxedStrategy<Vec<u8>> {
    prop_oneof![
        prop::sample::select(vec![
            b"a".to_vec(), b"comment".to_vec(), b"created by".to_vec(), b"encoding".to_vec(), b"inf".to_vec(), b"infn".to_vec(),
            b"info2".to_vec(), b"infp".to_vec(), b"zz".to_vec(), b"url-list".to_vec(), b"nodes".to_vec(), b"Info".to_vec(),
            vec![0xff, 0x01], b"creation date".to_vec(), b"b".to_vec(), b"j".to_vec(), b"4:info".to_vec(), b"dht4:info".to_vec(), b"x4:info".to_vec(),
            b"infoinfo".to_vec(), b"info\x00".to_vec(), b"INFO".to_vec(), b"4:infoz".to_vec(), b":info".to_vec(),
        ]),
        bytes_strategy(6),
    ]
    .boxed()
}

fn strategy(_t: Tier) -> BoxedStrategy<Case> {
    let info_part = (
        prop_oneof![Just(b"NAME".to_vec()), "[ -~]{0,10}".prop_map(|s| s.into_bytes()), "[:eild0-9-]{1,8}".prop_map(|s| s.into_bytes()), Just("ünï".as_bytes().to_vec())],
        prop_oneof![1i64..100000, Just(16384i64), Just(262144)],
        (0usize..4).prop_flat_map(|n| vec(any::<u8>(), n * 20..=n * 20)),
        prop_oneof![(0i64..1_000_000).prop_map(Some), Just(None)],
        vec((0i64..100000, prop_oneof![Just(b"f".to_vec()), Just(b"d/f".to_vec()), Just(b"4:info".to_vec())]), 0..3),
        vec((small_key(), extra_val()), 0..3),
        0u8..6,
    );
    let outer = (
        vec((small_key(), extra_val()), 0..4),
        vec((small_key(), extra_val()), 0..4),
        prop::bool::weighted(0.25),
        prop_oneof![3 => Just(vec![]), 1 => vec(extra_val(), 1..3)],
        prop_oneof![2 => Just(vec![]), 1 => vec(0u8..3, 1..6)],
    );
    (info_part, outer)
        .prop_map(|((name, piece_len, pieces, length, files, info_extra, info_rot), (before, after, out_of_order, trailing, lz))| Case {
            name,
            piece_len,
            pieces,
            length,
            files,
            info_extra,
            info_rot,
            before,
            after,
            out_of_order,
            trailing,
            lz,
        })
        .boxed()
}

pub struct Doc {
    pub bytes: Vec<u8>,
    pub span: (usize, usize),
}

const RESERVED_INFO: [&[u8]; 5] = [b"name", b"piece length", b"pieces", b"length", b"files"];

pub fn build(case: &Case) -> Doc {
    // info dictionary
    let mut info: Vec<(Vec<u8>, RVal)> = vec![
        (b"name".to_vec(), RVal::Str(case.name.clone())),
        (b"piece length".to_vec(), RVal::Int(case.piece_len)),
        (b"pieces".to_vec(), RVal::Str(case.pieces.clone())),
    ];
    match case.length {
        Some(l) => info.push((b"length".to_vec(), RVal::Int(l))),
        None => info.push((
            b"files".to_vec(),
            RVal::List(
                case.files
                    .iter()
                    .map(|(l, p)| RVal::Dict(vec![(b"length".to_vec(), RVal::Int(*l)), (b"path".to_vec(), RVal::Str(p.clone()))]))
                    .collect(),
            ),
        )),
    }
    for (k, v) in &case.info_extra {
        if !RESERVED_INFO.contains(&k.as_slice()) && !info.iter().any(|(kk, _)| kk == k) {
            info.push((k.clone(), v.clone()));
        }
    }
    info.sort_by(|a, b| a.0.cmp(&b.0));
    let rot = case.info_rot as usize % info.len();
    info.rotate_left(rot);

    // top level: unique keys, never a second "info" or "announce"
    let mut top: Vec<(Vec<u8>, RVal)> = vec![];
    let mut push_extras = |src: &Vec<(Vec<u8>, RVal)>, top: &mut Vec<(Vec<u8>, RVal)>| {
        for (k, v) in src {
            if k != b"info" && k != b"announce" && !top.iter().any(|(kk, _)| kk == k) {
                top.push((k.clone(), v.clone()));
            }
        }
    };
    push_extras(&case.before, &mut top);
    top.push((b"announce".to_vec(), RVal::s("http://tracker.example/announce")));
    top.push((b"info".to_vec(), RVal::Dict(info)));
    push_extras(&case.after, &mut top);
    if !case.out_of_order {
        top.sort_by(|a, b| a.0.cmp(&b.0));
    }

    let mut w = NcWriter::new(&case.lz);
    w.out.push(b'd');
    let mut span = (0, 0);
    for (k, v) in &top {
        w.str(k);
        let s = w.out.len();
        w.val(v);
        if k == b"info" {
            span = (s, w.out.len());
        }
    }
    w.out.push(b'e');
    for t in &case.trailing {
        w.val(t);
    }
    Doc { bytes: w.out, span }
}

pub fn check_doc(doc: &[u8], span: Option<(usize, usize)>, o: &mut Outcome) -> bool {
    let res = match catch(|| rdest::Metainfo::from_bencode(doc)) {
        Ok(r) => r,
        Err(p) => {
            o.fail(panic_signature(&p), format!("from_bencode panicked on {}: {}", show_bytes(doc), p));
            return false;
        }
    };
    let m = match res {
        Ok(m) => m,
        Err(_) => return false,
    };
    let span = match span {
        Some(s) => s,
        None => return true,
    };
    let want = sha1(&doc[span.0..span.1]);
    if m.info_hash() != &want {
        // whose hash is it?
        let mut sig = "wrong-info-hash".to_string();
        let mut whose = String::new();
        if let Some(spans) = rb::key_value_spans(doc, b"info") {
            for (depth, s, e) in spans {
                if (s, e) != span && &sha1(&doc[s..e]) == m.info_hash() {
                    sig = "hash-of-nested-info-value".to_string();
                    whose = format!(" (it is the hash of the value of an `info` key at depth {}, bytes {}..{})", depth, s, e);
                    break;
                }
            }
        }
        o.fail(
            sig,
            format!(
                "info_hash differs from SHA-1 of the top-level info span {}..{}{} in document {}",
                span.0,
                span.1,
                whose,
                show_bytes(doc)
            ),
        );
    }
    true
}

pub fn check(case: &Case) -> Outcome {
    let mut o = Outcome::new();
    let doc = build(case);
    // self-check of the writer against the reference parser
    match rb::parse_document_spans(&doc.bytes) {
        Ok(vals) => {
            let sp = rb::top_level_value_span(&doc.bytes, vals[0].1, b"info");
            if sp != Some(doc.span) {
                o.fail("harness-span-mismatch", format!("writer span {:?} vs reference parser {:?}", doc.span, sp));
                return o;
            }
        }
        Err(e) => {
            o.fail("harness-doc-malformed", format!("generated document is malformed: {:?}", e));
            return o;
        }
    }
    let has_nested_dict = case.before.iter().chain(case.after.iter()).any(|(_, v)| matches!(v, RVal::Dict(_)) || v.depth() >= 2);
    let nested_info = rb::key_value_spans(&doc.bytes, b"info").map(|s| s.len() > 1).unwrap_or(false);
    let noncanon = case.info_rot != 0 || !case.lz.is_empty() && case.lz.iter().any(|z| *z > 0) || case.out_of_order;
    o.nontrivial = has_nested_dict || noncanon;
    o.class_if(nested_info, "nested-info-key");
    o.class_if(!case.lz.is_empty() && case.lz.iter().any(|z| *z > 0), "leading-zero-lengths");
    o.class_if(case.info_rot != 0, "non-canonical-info-order");
    o.class_if(case.out_of_order, "top-level-out-of-order");
    o.class_if(!case.trailing.is_empty(), "trailing-values");
    o.class_if(case.length.is_none(), "multi-file");
    let accepted = check_doc(&doc.bytes, Some(doc.span), &mut o);
    o.class_if(accepted, "accepted");
    o.class_if(accepted && nested_info, "accepted+nested-info-key");
    o.class_if(accepted && !case.lz.is_empty() && case.lz.iter().any(|z| *z > 0), "accepted+leading-zero-lengths");
    // The same document without the `e` that closes the top-level dictionary, when the info value is the last thing in
    // it: the info dictionary itself is complete, its bytes are what they were. rdest accepts such a document (the known
    // finding of C16); "for every accepted document" then applies to it as well.
    if doc.span.1 + 1 == doc.bytes.len() {
        let cut = &doc.bytes[..doc.bytes.len() - 1];
        let acc2 = check_doc(cut, Some(doc.span), &mut o);
        o.class("info-value-ends-the-input");
        o.class_if(acc2, "accepted+info-value-ends-the-input");
    }
    o
}

fn run(ctx: &WorkerCtx) -> WorkerReport {
    run_proptest(ctx, "documents", strategy(ctx.tier), check)
}

#[derive(Clone, Debug, Serialize, Deserialize)]
pub struct RawCase {
    pub bytes: Vec<u8>,
}

/// Arbitrary bytes (fuzz artefacts): the reference parser finds the span.
pub fn check_raw(case: &RawCase) -> Outcome {
    let mut o = Outcome::new();
    o.nontrivial = true;
    let span = rb::parse_document_spans(&case.bytes).ok().and_then(|vals| {
        vals.iter().find(|(v, _, _)| matches!(v, RVal::Dict(_))).and_then(|(_, s, _)| rb::top_level_value_span(&case.bytes, *s, b"info"))
    });
    check_doc(&case.bytes, span, &mut o);
    o
}

pub fn def() -> PropDef {
    PropDef {
        id: "C05",
        rule: "a generated metainfo document written by a span-tracking writer: announce + valid single/multi-file info + 0-8 extra top-level keys before/after info (sorted, or out of order) whose values are arbitrary nested bencode incl. dictionaries holding a key spelled `info` at depth 1-3; inside info rotated (non-canonical) key order, extra keys, binary strings; string lengths optionally written with leading zeros; optional well-formed values after the dictionary. When the info value is the last thing in the document, the same bytes without the final `e` of the top-level dictionary are checked too (rdest accepts them: the known finding of C16; the info value is complete and unchanged). Oracle: if from_bencode accepts, info_hash() == SHA-1(doc[span of the top-level info value]) (span cross-checked with the reference parser). Rejection is not a violation; accept rates per class are reported and floors enforced. Non-trivial = a nested dictionary outside info or a non-canonical encoding; distinct by hash of the case.",
        assumptions: &[
            "the document has exactly one top-level `info` key and no values before the top-level dictionary",
            "leading zeros in string lengths are legal encodings (property text)",
        ],
        subs: vec![
            Sub {
                name: "documents",
                cases: |t| t.pick(300_000, 5_000_000),
                run,
                replay: |v| replay_case::<Case>(v, check),
                min_class: &[("accepted", 0.5), ("accepted+nested-info-key", 0.05), ("accepted+leading-zero-lengths", 0.02), ("non-canonical-info-order", 0.3), ("trailing-values", 0.1), ("accepted+info-value-ends-the-input", 0.08)],
            },
            Sub { name: "raw", cases: |_| 0, run: |_| WorkerReport::default(), replay: |v| replay_case::<RawCase>(v, check_raw), min_class: &[] },
        ],
    }
}
