//! C13 — Piece choice is rarest-first among what the peer can give.

use crate::engine::*;
use crate::refmodel::geometry::*;
use crate::rt;
use proptest::collection::vec;
use proptest::prelude::*;
use rdest::verif::Status;
use serde::{Deserialize, Serialize};

#[derive(Clone, Debug, Serialize, Deserialize)]
pub struct Case {
    /// 0 = Missing, 1..=3 = Reserved(n), 4 = Have
    pub statuses: Vec<u8>,
    /// per peer: advertised set as bools (same length as statuses)
    pub peers: Vec<Vec<bool>>,
    pub asking: usize,
}

fn strategy() -> BoxedStrategy<Case> {
    (prop_oneof![300 => 1usize..40, 1 => prop::sample::select(vec![1023usize, 1024, 1025, 1100, 2049, 4000, 65537, 65541, 70000, 80000])], prop_oneof![400 => 1usize..=6, 1 => prop::sample::select(vec![255usize, 256, 257, 300])])
        .prop_flat_map(|(n, np)| {
            // big torrents: few peers (one of them a seed, the others hold a few pieces each)
            let np = if n > 1000 { 2 + np % 3 } else { np };
            // number of non-Have entries: forced around the threshold when possible
            let target_missing = prop_oneof![
                3 => 0..=n,
                3 => prop::sample::select(vec![9usize, 10, 11]).prop_map(move |k| k.min(n)),
                1 => Just(n),
            ];
            let peer = if n > 1000 {
                prop_oneof![1 => Just(vec![true; n]), 2 => vec(prop::bool::weighted(0.03), n..=n)].boxed()
            } else if np >= 255 {
                // with hundreds of peers availability differences live above 255 only if almost everybody has almost everything
                prop_oneof![3 => vec(prop::bool::weighted(0.95), n..=n), 1 => Just(vec![true; n])].boxed()
            } else {
                prop_oneof![
                4 => vec(any::<bool>(), n..=n),
                1 => vec(prop::bool::weighted(0.15), n..=n),
                1 => Just(vec![true; n]),
                1 => Just(vec![false; n]),
            ].boxed()
            };
            (
                target_missing,
                vec(prop_oneof![3 => Just(0u8), 1 => 1u8..=3], n..=n),
                any::<u64>(),
                vec(peer, np..=np),
                0..np,
                prop::bool::weighted(0.2),
            )
        })
        .prop_map(|(missing, kinds, perm_seed, mut peers, asking, identical)| {
            let n = kinds.len();
            // choose which indices are non-Have by a seeded permutation
            let mut idx: Vec<usize> = (0..n).collect();
            let mut s = perm_seed | 1;
            for i in (1..n).rev() {
                s ^= s << 13;
                s ^= s >> 7;
                s ^= s << 17;
                idx.swap(i, (s % (i as u64 + 1)) as usize);
            }
            let mut statuses = vec![4u8; n];
            for k in 0..missing {
                statuses[idx[k]] = kinds[idx[k]];
            }
            if identical && peers.len() > 1 {
                let first = peers[0].clone();
                for p in peers.iter_mut() {
                    *p = first.clone();
                }
            }
            Case { statuses, peers, asking }
        })
        .boxed()
}

fn to_status(s: u8) -> Status {
    match s {
        0 => Status::Missing,
        4 => Status::Have,
        n => Status::Reserved(n as usize),
    }
}

pub fn check(c: &Case) -> Outcome {
    let mut o = Outcome::new();
    let n = c.statuses.len();
    let missing = c.statuses.iter().filter(|s| **s != 4).count();
    let asking = c.asking.min(c.peers.len() - 1);
    let avail = |i: usize| c.peers.iter().filter(|p| p[i]).count();
    let candidates: Vec<usize> = (0..n)
        .filter(|i| c.peers[asking][*i] && c.statuses[*i] != 4 && (c.statuses[*i] == 0 || missing < 10))
        .collect();
    let min_avail = candidates.iter().map(|i| avail(*i)).min();
    let diff_avail = candidates.iter().map(|i| avail(*i)).collect::<std::collections::BTreeSet<_>>().len() >= 2;
    o.nontrivial = diff_avail || (9..=11).contains(&missing);
    o.class_if(diff_avail, "candidates-with-different-availability");
    o.class_if(missing == 9, "missing=9");
    o.class_if(missing == 10, "missing=10");
    o.class_if(missing == 11, "missing=11");
    o.class_if(candidates.is_empty(), "no-candidate");
    o.class_if(c.peers.len() >= 255, ">=255-peers");
    o.class_if(c.statuses.len() > 1000, ">1000-pieces");
    o.class_if(c.statuses.len() > 65536, ">65536-pieces");
    o.class_if(missing < 10 && c.statuses.iter().any(|s| (1..=3).contains(s)), "end-game-with-reserved");
    o.class_if(missing >= 10 && c.statuses.iter().any(|s| (1..=3).contains(s)), "normal-with-reserved");

    let t = Torrent::new(Geometry::single(1, n, 7));
    let m = t.metainfo().expect("metainfo");
    let statuses = c.statuses.clone();
    let peers = c.peers.clone();
    let picks = catch(|| {
        rt::block_on(async move {
            let mut s = rdest::Session::new(m, *b"-VF0001-000000000000");
            for (i, st) in statuses.iter().enumerate() {
                s.verif_set_status(i, to_status(*st));
            }
            for (k, p) in peers.iter().enumerate() {
                let addr = format!("10.0.0.{}:6881", k + 1);
                s.verif_add_peer(&addr, None);
                s.verif_set_peer_pieces(&addr, p);
            }
            let addr = format!("10.0.0.{}:6881", asking + 1);
            let mut picks = vec![];
            for _ in 0..8 {
                picks.push(s.verif_choose_piece_index(&addr).await);
            }
            picks
        })
    });
    let picks = match picks {
        Ok(p) => p,
        Err(p) => {
            o.fail(panic_signature(&p), format!("choose_piece_index panicked: {}", p));
            return o;
        }
    };
    for pick in picks {
        match pick {
            None => {
                if !candidates.is_empty() {
                    o.fail("picks-nothing-although-candidate-exists", format!("picked nothing; candidates {:?} (missing={}) statuses {:?}", candidates, missing, c.statuses));
                }
            }
            Some(i) => {
                if i >= n || !c.peers[asking][i] {
                    o.fail("picks-piece-peer-lacks", format!("picked {} which the asking peer does not advertise", i));
                } else if c.statuses[i] == 4 {
                    o.fail("picks-owned-piece", format!("picked {} which the client already has", i));
                } else if c.statuses[i] != 0 && missing >= 10 {
                    o.fail("picks-reserved-outside-end-game", format!("picked {} (Reserved) although {} pieces are still missing (>= 10)", i, missing));
                } else if Some(avail(i)) != min_avail {
                    o.fail(
                        "not-rarest",
                        format!("picked {} advertised by {} peers, but a candidate advertised by {} exists (candidates {:?})", i, avail(i), min_avail.unwrap(), candidates),
                    );
                }
            }
        }
    }
    o
}

pub fn def() -> PropDef {
    PropDef {
        id: "C13",
        rule: "a constructed manager state: 1-39 pieces (rarely 1023-4000 or 65537-80000 pieces - indices beyond 16 bits - with a seed and peers holding 3 % each) with a status vector whose number of non-Have entries is drawn around the end-game threshold (9, 10, 11 forced), Reserved(1..3) mixed in; 1-6 peers with generated advertised sets (random, sparse, full, empty, all identical); the real choose_piece_index is called 8 times for a generated asking peer (samples its internal shuffle). Oracle (validity predicate over any tie-break): result is None iff no candidate exists; otherwise it is advertised by the asking peer, not owned, not reserved unless fewer than 10 pieces are missing, and no candidate is advertised by fewer connected peers. Sub histories: the wire-driven histories of C12 (real connection tasks and manager, pieces completing, chokes with blocks in flight, disconnects) judged by one clause of this property: no assignment picks a piece that another peer is already fetching while ten or more pieces are missing, and an unchoking peer whose Unchoke or finished piece makes the manager pick gets a piece whenever it advertises one that is Missing (\"picks nothing exactly when no such piece exists\") - this reaches manager state that set-up hooks cannot construct (e.g. bookkeeping that drifts when a piece completes twice). Non-trivial (states) = two candidates with different availability or missing in {9,10,11}; distinct by hash of the case.",
        assumptions: &["states are constructed through set-up hooks (verif_set_status / verif_set_peer_pieces); reachability of each state through real traffic is not required by the property (it quantifies over all status vectors and peer sets)"],
        subs: vec![Sub {
            name: "states",
            cases: |t| t.pick(500_000, 5_000_000),
            run: |ctx| run_proptest(ctx, "states", strategy(), check),
            replay: |v| replay_case::<Case>(v, check),
            min_class: &[("candidates-with-different-availability", 0.1757), ("missing=9", 0.03), ("missing=10", 0.03), ("missing=11", 0.03), ("no-candidate", 0.05), ("end-game-with-reserved", 0.1), ("normal-with-reserved", 0.1), (">1000-pieces", 0.001), (">65536-pieces", 0.0003)],
        },
        Sub {
            name: "histories",
            cases: |t| t.pick(8_000, 150_000),
            run: |ctx| run_proptest(ctx, "histories", crate::props::c12::histories_strategy(), crate::props::c12::check_c13_only),
            replay: |v| replay_case::<crate::props::c12::Case>(v, crate::props::c12::check_c13_only),
            min_class: &[(">=10-missing-with-2-peers", 0.1)],
        }],
    }
}
