use crate::engine::PropDef;

pub mod c01;
pub mod c02;
pub mod c03;
pub mod c04;
pub mod c05;
pub mod c06;
pub mod c07;
pub mod c08;
pub mod c09;
pub mod c10;
pub mod c11;
pub mod c12;
pub mod c13;
pub mod c14;
pub mod c15;
pub mod c16;
pub mod c17;
pub mod c18;
pub mod c19;
pub mod c20;

pub fn all() -> Vec<PropDef> {
    vec![c01::def(), c02::def(), c03::def(), c04::def(), c05::def(), c06::def(), c07::def(), c08::def(), c09::def(), c10::def(), c11::def(), c12::def(), c13::def(), c14::def(), c15::def(), c16::def(), c17::def(), c18::def(), c19::def(), c20::def()]
}

pub fn by_id(id: &str) -> Option<PropDef> {
    all().into_iter().find(|d| d.id == id)
}
