//! C01 — Only hash-verified data is ever stored, advertised or assembled.

use crate::engine::*;
use crate::gen::idx;
use crate::net::Net;
use crate::props::c12::{check_invariants, finisher, Inv};
use crate::refmodel::geometry::*;
use crate::refmodel::wire::{self, RFrame};
use crate::rt;
use crate::swarm::{self, World};
use proptest::collection::vec;
use proptest::prelude::*;
use rdest::verif::Status;
use serde::{Deserialize, Serialize};
use std::collections::{BTreeMap, BTreeSet};

#[derive(Clone, Debug, Serialize, Deserialize)]
pub enum Act {
    /// answer an outstanding request correctly
    Correct,
    /// answer with one bit flipped at the given position
    CorruptBit(u16),
    /// the right bytes of another block of the same length, at this request's offset
    WrongData,
    /// right data, other offset
    WrongOffset(u16),
    /// right data, other piece index
    WrongIndex(u8),
    LenMinus(u8),
    LenPlus(u8),
    /// re-send something already delivered
    Duplicate(u16),
    /// a block for a request that is no longer outstanding (earlier assignment)
    Stale(u16),
    /// a block nobody asked for
    Unrequested(u8, u16, u16),
    Withhold,
    Choke,
    Unchoke,
    Disconnect,
    Join(u64),
    /// the remote peer asks the client for a block
    AskClient(u8),
    Have(u16),
    /// a repeated bitfield from a connected peer (what it advertised before stays advertised for the harness)
    Bitfield(u64),
}

#[derive(Clone, Debug, Serialize, Deserialize)]
pub struct Case {
    pub piece_len: usize,
    pub pieces: usize,
    pub last_len: usize,
    pub steps: Vec<(u16, Act)>,
    pub seed: u64,
}

fn strategy(tier: Tier) -> BoxedStrategy<Case> {
    let pl = match tier {
        Tier::Quick => prop::sample::select(vec![1usize, 7, 100, 16383, 16384, 16385, 20000, 32768]),
        Tier::Thorough => prop::sample::select(vec![1usize, 7, 100, 16383, 16384, 16385, 20000, 32768, 40000, 49153]),
    };
    let act = prop_oneof![
        10 => Just(Act::Correct),
        4 => any::<u16>().prop_map(Act::CorruptBit),
        2 => Just(Act::WrongData),
        1 => any::<u16>().prop_map(Act::WrongOffset),
        1 => any::<u8>().prop_map(Act::WrongIndex),
        1 => (1u8..4).prop_map(Act::LenMinus),
        1 => (1u8..4).prop_map(Act::LenPlus),
        1 => any::<u16>().prop_map(Act::Duplicate),
        1 => any::<u16>().prop_map(Act::Stale),
        1 => (any::<u8>(), any::<u16>(), 0u16..40).prop_map(|(i, b, l)| Act::Unrequested(i, b, l)),
        1 => Just(Act::Withhold),
        1 => Just(Act::Choke),
        3 => Just(Act::Unchoke),
        1 => Just(Act::Disconnect),
        2 => any::<u64>().prop_map(Act::Join),
        2 => any::<u8>().prop_map(Act::AskClient),
        2 => any::<u16>().prop_map(Act::Have),
        1 => prop_oneof![Just(3u64), any::<u64>()].prop_map(Act::Bitfield),
    ];
    (pl, 1usize..=14)
        .prop_flat_map(move |(pl, n)| {
            // keep the total small for the large piece lengths
            let n = if pl > 1000 { n.min(6) } else { n };
            (Just(pl), Just(n), prop_oneof![Just(pl), 1..=pl], vec((any::<u16>(), act.clone()), 0..60), any::<u64>())
        })
        .prop_map(|(piece_len, pieces, last_len, steps, seed)| Case { piece_len, pieces, last_len, steps, seed })
        .boxed()
}

fn bits_from(seed: u64, n: usize) -> Vec<bool> {
    let mode = seed % 4;
    let mut x = seed | 1;
    (0..n)
        .map(|_| {
            x ^= x << 13;
            x ^= x >> 7;
            x ^= x << 17;
            match mode {
                0 | 1 => true,
                2 => x % 2 == 0,
                _ => x % 4 != 0,
            }
        })
        .collect()
}

/// Disk invariant: returns the set of piece indices whose file is present and verified.
fn check_disk(t: &Torrent, obstacles: &[String], planted: &BTreeMap<String, Vec<u8>>, cache: &mut BTreeMap<String, (u64, std::time::SystemTime, bool)>, fails: &mut Vec<(String, String)>, what: &str) -> BTreeSet<usize> {
    let mut owned = BTreeSet::new();
    let rd = match std::fs::read_dir(".") {
        Ok(r) => r,
        Err(_) => return owned,
    };
    for e in rd.flatten() {
        let name = e.file_name().to_string_lossy().to_string();
        if name == "obstacle.d" || (obstacles.contains(&name) && std::fs::symlink_metadata(e.path()).map(|m| m.file_type().is_symlink()).unwrap_or(false)) {
            // planted by the harness, untouched
            continue;
        }
        let meta = match e.metadata() {
            Ok(m) => m,
            Err(_) => continue,
        };
        if !name.ends_with(".piece") {
            fails.push(("unexpected-file-in-store".into(), format!("{}: file {:?} appeared in the download directory", what, name)));
            continue;
        }
        let stem = &name[..name.len() - 6];
        let idxs: Vec<usize> = (0..t.hashes.len()).filter(|i| hex_upper(&t.hashes[*i]) == stem).collect();
        if idxs.is_empty() {
            fails.push(("stored-file-with-foreign-name".into(), format!("{}: {:?} is not the hash of any piece of the torrent", what, name)));
            continue;
        }
        let key = (meta.len(), meta.modified().unwrap_or(std::time::UNIX_EPOCH));
        let ok = match cache.get(&name) {
            Some((l, m, ok)) if (*l, *m) == key => *ok,
            _ => {
                let data = std::fs::read(e.path()).unwrap_or_default();
                let ok = hex_upper(&sha1(&data)) == stem && data.len() == t.geo.piece_length(idxs[0]);
                cache.insert(name.clone(), (key.0, key.1, ok));
                ok
            }
        };
        if !ok && planted.get(&name).map(|d| std::fs::read(e.path()).map(|cur| cur == *d).unwrap_or(false)).unwrap_or(false) {
            // the damaged file of an earlier run that the harness put there, untouched: not the client's doing, and
            // not a verified piece
            continue;
        }
        if !ok {
            fails.push((
                "stored-piece-fails-hash".into(),
                format!("{}: stored file {:?} ({} bytes) does not hash to its name / has the wrong length (piece {:?}, expected {} bytes)", what, name, meta.len(), idxs, t.geo.piece_length(idxs[0])),
            ));
        } else {
            for i in idxs {
                owned.insert(i);
            }
        }
    }
    owned
}

pub fn check(c: &Case) -> Outcome {
    let mut o = Outcome::new();
    let cwd = fresh_cwd();
    let total = c.piece_len * (c.pieces - 1) + c.last_len.min(c.piece_len).max(1);
    let geo = Geometry::single(c.piece_len, total, c.seed);
    let n = geo.pieces_num();
    let t = Torrent::new(geo.clone());
    let mut planted: BTreeMap<String, Vec<u8>> = BTreeMap::new();
    if c.seed % 4 == 1 {
        // a restart: damaged piece files of an earlier run are in the directory
        planted = t.write_damaged_leftovers(c.seed).into_iter().collect();
        o.class("damaged-leftover-piece-files");
    }
    let mut obstacles: Vec<String> = vec![];
    if c.seed % 8 == 6 {
        // the store cannot take some pieces: their write fails every time (the download cannot finish, but nothing may
        // be claimed that is not there)
        obstacles = t.write_obstacles(c.seed);
        o.class_if(!obstacles.is_empty(), "piece-file-cannot-be-written");
    }
    let blocked = !obstacles.is_empty();
    let obstacles2 = obstacles.clone();
    let c2 = c.clone();
    let t2 = t.clone();
    let res = swarm::run(c.seed, &t, move |w: &mut World| {
        Box::pin(async move {
            let c = c2;
            let t = t2;
            let mut net = Net::new(&t);
            let mut inv = Inv { fails: vec![], have_seen: vec![false; n], cmds_checked: 0 };
            let mut fails: Vec<(String, String)> = vec![];
            let mut classes: Vec<&'static str> = vec![];
            let mut cache = BTreeMap::new();
            let mut owned_prev: BTreeSet<usize> = BTreeSet::new();
            let mut delivered: Vec<(usize, u32, u32, u32)> = vec![]; // (peer, i, b, l) correctly delivered
            let mut bad_sent = false;
            let mut log_seen: Vec<usize> = vec![];

            let mut steps: Vec<(u16, Act)> = vec![(0, Act::Join(0)), (0, Act::Unchoke)];
            steps.extend(c.steps.iter().cloned());
            for (k, (who, act)) in steps.iter().enumerate() {
                if w.fatal().is_some() || !fails.is_empty() || !inv.fails.is_empty() {
                    break;
                }
                let live: Vec<usize> = (0..net.peers.len()).filter(|p| net.alive(w, *p)).collect();
                let with_req: Vec<usize> = live.iter().copied().filter(|p| !net.peers[*p].view.outstanding.is_empty()).collect();
                let pick_live = |i: u16| if live.is_empty() { None } else { Some(live[idx(i, live.len())]) };
                let pick_req = |i: u16| if with_req.is_empty() { None } else { Some(with_req[idx(i, with_req.len())]) };
                let what = format!("step {} {:?}", k, act);
                match act {
                    Act::Join(bits) => {
                        if live.len() < 3 {
                            let p = net.connect(w, false);
                            net.handshake(w, p);
                            let b = bits_from(*bits, n);
                            net.bitfield(w, p, &b);
                            net.observe(w).await;
                            net.interested(w, p, true);
                        }
                    }
                    Act::Unchoke => {
                        if let Some(p) = pick_live(*who) {
                            net.unchoke(w, p);
                        }
                    }
                    Act::Choke => {
                        if let Some(p) = pick_live(*who) {
                            let keep = net.peers[p].view.outstanding.clone();
                            net.choke(w, p);
                            net.peers[p].view.outstanding = keep; // blocks stay in flight
                        }
                    }
                    Act::Disconnect => {
                        if let Some(p) = pick_live(*who) {
                            net.disconnect(w, p);
                            classes.push("disconnect");
                        }
                    }
                    Act::Withhold => {
                        if let Some(p) = pick_req(*who) {
                            net.peers[p].view.outstanding.pop_front();
                        }
                    }
                    Act::Have(i) => {
                        if let Some(p) = pick_live(*who) {
                            let i = idx(*i, n);
                            net.have(w, p, i);
                        }
                    }
                    Act::Bitfield(bits) => {
                        if let Some(p) = pick_live(*who) {
                            // mode 3 of bits_from = sparse; seed 3 with low bits gives mostly-empty fields too
                            let b: Vec<bool> = if *bits == 3 { vec![false; n] } else { bits_from(*bits, n) };
                            let merged: Vec<bool> = b.iter().zip(net.peers[p].advertised.iter()).map(|(x, y)| *x || *y).collect();
                            net.bitfield(w, p, &b);
                            net.peers[p].advertised = merged;
                            classes.push("repeated-bitfield");
                        }
                    }
                    Act::AskClient(i) => {
                        if let Some(p) = pick_live(*who) {
                            let i = *i as usize % n;
                            let l = t.geo.piece_length(i).min(16384) as u32;
                            w.send_frame(net.peers[p].conn, &RFrame::Request(i as u32, 0, l));
                        }
                    }
                    Act::Unrequested(i, b, l) => {
                        if let Some(p) = pick_live(*who) {
                            let i = *i as usize % n;
                            let plen = t.geo.piece_length(i);
                            let b = idx(*b, plen);
                            let l = (*l as usize).min(plen - b);
                            let data = t.piece(i)[b..b + l].to_vec();
                            if !net.peers[p].view.outstanding.contains(&(i as u32, b as u32, l as u32)) {
                                w.send_frame(net.peers[p].conn, &RFrame::Piece(i as u32, b as u32, data));
                                classes.push("unrequested-block");
                            }
                        }
                    }
                    Act::Duplicate(j) => {
                        let mine: Vec<&(usize, u32, u32, u32)> = delivered.iter().filter(|d| live.contains(&d.0)).collect();
                        if !mine.is_empty() {
                            let (p, i, b, l) = *mine[idx(*j, mine.len())];
                            let data = t.piece(i as usize)[b as usize..(b + l) as usize].to_vec();
                            w.send_frame(net.peers[p].conn, &RFrame::Piece(i, b, data));
                            classes.push("duplicate-block");
                        }
                    }
                    Act::Stale(j) => {
                        if let Some(p) = pick_live(*who) {
                            let stale: Vec<(u32, u32, u32)> = net.peers[p].view.all_requests.iter().copied().filter(|r| !net.peers[p].view.outstanding.contains(r)).collect();
                            if !stale.is_empty() {
                                let (i, b, l) = stale[idx(*j, stale.len())];
                                let data = t.piece(i as usize)[b as usize..(b + l) as usize].to_vec();
                                w.send_frame(net.peers[p].conn, &RFrame::Piece(i, b, data));
                                classes.push("stale-block");
                            }
                        }
                    }
                    // ---- answers to an outstanding request
                    Act::Correct | Act::CorruptBit(_) | Act::WrongData | Act::WrongOffset(_) | Act::WrongIndex(_) | Act::LenMinus(_) | Act::LenPlus(_) => {
                        if let Some(p) = pick_req(*who) {
                            let (i, b, l) = net.peers[p].view.outstanding.pop_front().unwrap();
                            let piece = t.piece(i as usize);
                            let mut data = piece[b as usize..(b + l) as usize].to_vec();
                            let (mut si, mut sb) = (i, b);
                            match act {
                                Act::Correct => delivered.push((p, i, b, l)),
                                Act::CorruptBit(pos) => {
                                    if !data.is_empty() {
                                        let bit = idx(*pos, data.len() * 8);
                                        data[bit / 8] ^= 0x80 >> (bit % 8);
                                        bad_sent = true;
                                        classes.push("corrupt-block");
                                    }
                                }
                                Act::WrongData => {
                                    // bytes of another region of the same length
                                    let other = (b as usize + l as usize) % (piece.len() - l as usize + 1);
                                    let d2 = piece[other..other + l as usize].to_vec();
                                    if d2 != data {
                                        data = d2;
                                        bad_sent = true;
                                        classes.push("wrong-data-block");
                                    } else {
                                        delivered.push((p, i, b, l));
                                    }
                                }
                                Act::WrongOffset(x) => {
                                    // another block offset of the tiling if there is one, else any other offset
                                    let til = wire::tiling(piece.len());
                                    let others: Vec<u32> = til.iter().filter(|(bb, ll)| *bb != b && *ll == l).map(|(bb, _)| *bb).collect();
                                    sb = if !others.is_empty() { others[idx(*x, others.len())] } else { b.wrapping_add(1 + (*x as u32 % 7)) };
                                    bad_sent = true;
                                    classes.push("right-data-wrong-offset");
                                }
                                Act::WrongIndex(x) => {
                                    if n > 1 {
                                        si = (i + 1 + (*x as u32 % (n as u32 - 1))) % n as u32;
                                        bad_sent = true;
                                        classes.push("wrong-piece-index");
                                    } else {
                                        delivered.push((p, i, b, l));
                                    }
                                }
                                Act::LenMinus(kk) => {
                                    let cut = (*kk as usize).min(data.len());
                                    if cut > 0 {
                                        data.truncate(data.len() - cut);
                                        bad_sent = true;
                                        classes.push("truncated-block");
                                    } else {
                                        delivered.push((p, i, b, l));
                                    }
                                }
                                Act::LenPlus(kk) => {
                                    data.extend(std::iter::repeat(0x5a).take(*kk as usize));
                                    bad_sent = true;
                                    classes.push("extended-block");
                                }
                                _ => {}
                            }
                            w.send_frame(net.peers[p].conn, &RFrame::Piece(si, sb, data));
                        }
                    }
                }
                net.observe(w).await;
                if w.fatal().is_some() {
                    break;
                }
                // (1) disk
                let owned = check_disk(&t, &obstacles2, &planted, &mut cache, &mut fails, &what);
                // (2) ownership
                let snap = w.snapshot();
                for i in 0..n {
                    if snap.statuses[i] == Status::Have && !owned.contains(&i) {
                        fails.push(("have-without-verified-file".into(), format!("{}: piece {} is Have but no verified file for it is on disk", what, i)));
                    }
                }
                // (3) wire
                log_seen.resize(net.peers.len(), 0);
                for (pi, rp) in net.peers.iter().enumerate() {
                    for (_, f) in &rp.log[log_seen[pi]..] {
                        match f {
                            RFrame::Have(i) => {
                                if !owned.contains(&(*i as usize)) {
                                    fails.push(("have-announced-for-unverified-piece".into(), format!("{}: Have({}) sent to {} but the piece is not verified on disk", what, i, rp.addr)));
                                }
                            }
                            RFrame::Bitfield(b) => {
                                if let Some(bits) = wire::bytes_to_bits(b, n) {
                                    for (i, set) in bits.iter().enumerate() {
                                        if *set && !owned.contains(&i) {
                                            fails.push(("bitfield-marks-unverified-piece".into(), format!("{}: bitfield to {} marks piece {} which is not verified on disk", what, rp.addr, i)));
                                        }
                                    }
                                } else {
                                    fails.push(("bitfield-wrong-size".into(), format!("{}: bitfield of {} bytes for {} pieces", what, b.len(), n)));
                                }
                            }
                            RFrame::Piece(i, b, data) => {
                                classes.push("client-served-a-block");
                                if !owned.contains(&(*i as usize)) {
                                    fails.push(("served-unverified-piece".into(), format!("{}: Piece({},{},..) sent to {} but the piece is not verified on disk", what, i, b, rp.addr)));
                                } else {
                                    let piece = t.piece(*i as usize);
                                    let e = *b as usize + data.len();
                                    if e > piece.len() || piece[*b as usize..e] != data[..] {
                                        fails.push(("served-wrong-bytes".into(), format!("{}: Piece({},{},<{}>) differs from the content", what, i, b, data.len())));
                                    }
                                }
                            }
                            _ => {}
                        }
                    }
                    log_seen[pi] = rp.log.len();
                }
                if owned.len() < owned_prev.len() {
                    fails.push(("verified-piece-disappeared".into(), format!("{}: verified pieces went from {:?} to {:?}", what, owned_prev, owned)));
                }
                owned_prev = owned;
                // reservations are backed by live fetchers (a rejected piece must not stay reserved by a dead connection)
                check_invariants(w, &net, &mut inv, &what);
                inv.fails.retain(|f| !f.0.starts_with("c13-"));
            }
            let hash_rejections = w.conns.iter().filter(|c| c.kill_reason.as_deref().map(|r| r.contains("hash mismatch")).unwrap_or(false)).count();
            let mut completed = true;
            if w.fatal().is_none() && fails.is_empty() && inv.fails.is_empty() {
                completed = finisher(w, &mut net, &mut inv, true).await;
                let owned = check_disk(&t, &obstacles2, &planted, &mut cache, &mut fails, "after the finisher");
                if completed && owned.len() != n {
                    fails.push(("have-without-verified-file".into(), format!("all pieces Have but only {:?} verified on disk", owned)));
                }
            }
            inv.fails.retain(|f| !f.0.starts_with("c13-"));
            fails.extend(inv.fails.drain(..));
            (fails, classes, w.fatal(), completed, bad_sent, hash_rejections, w.snapshot().statuses)
        })
    });
    match res {
        Err(p) => o.fail(panic_signature(&p), format!("runtime panic: {}", p)),
        Ok((fails, classes, fatal, completed, bad_sent, hash_rejections, statuses)) => {
            for cl in classes {
                o.class(cl);
            }
            o.class_if(hash_rejections > 0, "assembled-piece-failed-hash");
            o.class_if(bad_sent, "some-bad-block");
            for (s, d) in fails {
                o.fail(s, d);
            }
            if let Some((s, d)) = fatal {
                o.fail(s, d);
            } else if !completed && o.ok() && blocked {
                o.class("download-cannot-finish-store-refuses-pieces");
            } else if !completed && o.ok() {
                o.fail("download-stuck-after-adversarial-peers", format!("an honest peer holding everything could not complete the download; statuses {:?}", statuses));
            } else if completed && o.ok() {
                // the output file assembled from the store is the original content
                let m = t.metainfo().unwrap();
                match catch(|| rt::run_extractor(&m)) {
                    Ok(Ok(())) => {
                        let out = std::fs::read(cwd.join(&geo.name)).unwrap_or_default();
                        if out != t.content {
                            o.fail("assembled-output-differs", format!("extracted file has {} bytes, differs from the original {} bytes", out.len(), t.content.len()));
                        }
                    }
                    Ok(Err(e)) => o.fail("extraction-fails-after-download", e),
                    Err(p) => o.fail(panic_signature(&p), p),
                }
            }
            o.nontrivial = bad_sent && (hash_rejections > 0 || statuses.iter().any(|s| *s == Status::Have));
        }
    }
    o
}

pub fn def() -> PropDef {
    PropDef {
        id: "C01",
        rule: "(an eighth of the cases: a symbolic link to a directory sits where some piece files belong, so that storing those pieces fails - the download then cannot finish, which is accepted, but nothing may be claimed that is not stored) (in a quarter of the cases damaged piece files of an earlier run - right name and length, zeroed tail - lie in the download directory: a restart) a torrent (piece length from {1,7,100,16383,16384,16385,20000,32768 (+40000,49153 thorough)}, 1-14 pieces, generated last-piece length) and up to 3 scripted peers with generated advertised subsets, driven by a global schedule of up to 60 steps; a step lets one peer answer one outstanding request correctly, with one bit flipped, with other bytes of the piece, at another offset, for another piece index, truncated, extended, or send a duplicate, a block for a request of an earlier assignment, an unrequested block, withhold, choke, unchoke, disconnect, join, announce a piece, repeat its bitfield (also an empty one), or itself request a block from the client. After every barrier: every file in the store is <HEX-SHA1>.piece of a listed hash with that piece's length and content hashing to its name, nothing else appears, verified pieces never disappear; every Have status has its verified file; every Have / bitfield bit / Piece frame the client wrote refers to a piece verified on disk at that barrier (and served bytes are the content); reservations are backed by live fetchers. Finally an honest peer must be able to complete the download and the real Extractor must reproduce the content. Non-trivial = at least one bad block was sent and either an assembled piece failed its hash or some piece was completed; distinct by hash of the case.",
        assumptions: &["observation granularity is the quiescence barrier: 'advertised only after stored' is checked as 'stored at the barrier in which the advertisement was read'"],
        subs: vec![Sub {
            name: "adversary",
            cases: |t| t.pick(15_000, 200_000),
            run: |ctx| run_proptest(ctx, "adversary", strategy(ctx.tier), check),
            replay: |v| replay_case::<Case>(v, check),
            min_class: &[("corrupt-block", 0.2518), ("assembled-piece-failed-hash", 0.2), ("right-data-wrong-offset", 0.05), ("wrong-piece-index", 0.05), ("client-served-a-block", 0.05), ("disconnect", 0.2), ("stale-block", 0.03), ("duplicate-block", 0.1), ("repeated-bitfield", 0.1), ("damaged-leftover-piece-files", 0.1), ("piece-file-cannot-be-written", 0.04)],
        }],
    }
}
