//! C12 — No missing piece is ever withheld by a stale reservation.

use crate::engine::*;
use crate::gen::idx;
use crate::net::Net;
use crate::refmodel::geometry::*;
use crate::swarm::{self, World};
use proptest::collection::vec;
use proptest::prelude::*;
use rdest::verif::Status;
use serde::{Deserialize, Serialize};

#[derive(Clone, Debug, Serialize, Deserialize)]
pub enum Op {
    /// connect a new peer, handshake, bitfield with the given bits (mapped onto the piece count)
    Join(u64),
    /// a (repeated) bitfield from a connected peer
    Bitfield(u16, u64),
    Have(u16, u16),
    Choke(u16),
    /// choke, but the blocks already requested stay in flight (the peer still answers them)
    ChokeKeep(u16),
    Unchoke(u16),
    /// two unchokes in a row
    UnchokeTwice(u16),
    Interested(u16),
    NotInterested(u16),
    /// deliver the next outstanding block of that peer (correct data)
    Deliver(u16),
    DeliverAll(u16),
    /// the answer to a request the client has cancelled meanwhile arrives anyway (it was in flight)
    DeliverCancelled(u16),
    /// every peer with something outstanding (or in flight after a choke) delivers one block, all within one barrier
    DeliverAllPeersAtOnce,
    /// 11 virtual seconds pass (the connection tasks' 10 s stats tick fires)
    Wait,
    /// one peer delivers its next block and, in the same barrier, another peer with something outstanding goes away
    DeliverWhileOtherLeaves(u16, u16),
    Disconnect(u16),
    /// the manager task is not scheduled for a while: meanwhile one peer sends 70 interested messages
    /// (its task's notifications fill the manager's 64-entry queue), then another peer chokes the client; then the
    /// manager runs again
    ManagerLate(u16, u16),
    /// a connected peer sends its (valid) handshake a second time in the middle of the session
    Rehandshake(u16),
    /// like DeliverWhileOtherLeaves, but the other peer chokes the client instead of leaving: its Choke and the manager's
    /// broadcast about the finished piece both wait for its task, which handles them in either order
    DeliverWhileOtherChokes(u16, u16),
}

#[derive(Clone, Debug, Serialize, Deserialize)]
pub struct Case {
    pub pieces: usize,
    pub piece_len: usize,
    pub ops: Vec<Op>,
    pub seed: u64,
}

fn strategy() -> BoxedStrategy<Case> {
    let op = prop_oneof![
        3 => any::<u64>().prop_map(Op::Join),
        2 => (any::<u16>(), any::<u16>()).prop_map(|(p, i)| Op::Have(p, i)),
        1 => (any::<u16>(), any::<u64>()).prop_map(|(p, b)| Op::Bitfield(p, b)),
        2 => any::<u16>().prop_map(Op::Choke),
        2 => any::<u16>().prop_map(Op::ChokeKeep),
        5 => any::<u16>().prop_map(Op::Unchoke),
        1 => any::<u16>().prop_map(Op::UnchokeTwice),
        1 => any::<u16>().prop_map(Op::Interested),
        1 => any::<u16>().prop_map(Op::NotInterested),
        6 => any::<u16>().prop_map(Op::Deliver),
        3 => any::<u16>().prop_map(Op::DeliverAll),
        2 => any::<u16>().prop_map(Op::DeliverCancelled),
        2 => Just(Op::DeliverAllPeersAtOnce),
        2 => Just(Op::Wait),
        2 => (any::<u16>(), any::<u16>()).prop_map(|(a, b)| Op::DeliverWhileOtherLeaves(a, b)),
        1 => any::<u16>().prop_map(Op::Disconnect),
        1 => (any::<u16>(), any::<u16>()).prop_map(|(a, b)| Op::ManagerLate(a, b)),
        1 => any::<u16>().prop_map(Op::Rehandshake),
        2 => (any::<u16>(), any::<u16>()).prop_map(|(a, b)| Op::DeliverWhileOtherChokes(a, b)),
    ];
    // scenario templates that reach deep states; random ops follow
    let template = prop_oneof![
        6 => Just(vec![]),
        // two peers holding the same single piece; the first is choked with blocks in flight, the second takes the piece over
        1 => Just(vec![Op::Join(5), Op::Join(5), Op::Unchoke(0), Op::ChokeKeep(0), Op::Unchoke(65535), Op::Unchoke(0)]),
        1 => Just(vec![Op::Join(5), Op::Join(7), Op::Unchoke(0), Op::ChokeKeep(0), Op::Unchoke(65535)]),
        1 => Just(vec![Op::Join(0), Op::Join(0), Op::Unchoke(0), Op::Unchoke(65535), Op::ChokeKeep(0), Op::Deliver(0)]),
        // the same piece completes twice: the first fetcher chokes with the block in flight, a second peer takes the piece
        // over, both blocks arrive in the same barrier
        2 => Just(vec![Op::Join(5), Op::Join(5), Op::Unchoke(0), Op::ChokeKeep(0), Op::Unchoke(65535), Op::DeliverAllPeersAtOnce, Op::Join(0), Op::Join(2), Op::Unchoke(65535), Op::Unchoke(40000)]),
        // end game: two seeders are asked for the same piece; one completes it while the other goes away
        2 => Just(vec![Op::Join(0), Op::Join(0), Op::Unchoke(0), Op::Unchoke(65535), Op::DeliverWhileOtherLeaves(0, 0)]),
        // end game: two interested peers fetch the same pieces; one finishes first, the other's answer is already in flight
        1 => Just(vec![Op::Join(0), Op::Join(0), Op::Interested(0), Op::Interested(65535), Op::Unchoke(0), Op::Unchoke(65535)]),
        // end game: two seeders fetch the same piece; one completes it while the other's Choke is still unread
        2 => Just(vec![Op::Join(0), Op::Join(0), Op::Unchoke(0), Op::Unchoke(65535), Op::DeliverWhileOtherChokes(0, 0)]),
        // a peer in the middle of a download sends a second, empty bitfield and then announces pieces one by one
        1 => Just(vec![Op::Join(0), Op::Unchoke(0), Op::Bitfield(0, 1)]),
    ];
    (prop_oneof![6 => 3usize..=16, 4 => 11usize..=16, 4 => 10usize..=12, 1 => 17usize..=40], prop_oneof![Just(1usize), 1usize..=64], template, vec(op, 0..80), any::<u64>())
        .prop_map(|(pieces, piece_len, mut pre, ops, seed)| {
            pre.extend(ops);
            Case { pieces, piece_len, ops: pre, seed }
        })
        .boxed()
}

fn bits_from(seed: u64, n: usize) -> Vec<bool> {
    // a few shapes: everything, nothing, random dense, random sparse, exactly one or two low-numbered pieces
    let mode = seed % 8;
    let mut x = seed | 1;
    if mode >= 5 {
        let mut v = vec![false; n];
        v[((seed >> 8) % 3) as usize % n] = true;
        if mode == 7 {
            v[((seed >> 16) % 3) as usize % n] = true;
        }
        return v;
    }
    (0..n)
        .map(|i| {
            x ^= x << 13;
            x ^= x >> 7;
            x ^= x << 17;
            match mode {
                0 => true,
                1 => false,
                2 => x % 4 == 0,
                // nothing among the first eight pieces (the bitfield starts with a zero byte), dense after
                4 => i >= 8 && x % 3 != 0,
                _ => x % 3 != 0,
            }
        })
        .collect()
}

pub struct Inv {
    pub fails: Vec<(String, String)>,
    pub have_seen: Vec<bool>,
    pub cmds_checked: usize,
}

/// Invariants I1..I3 on the current state. `what` describes the step for messages.
pub fn check_invariants(w: &World, net: &Net, inv: &mut Inv, what: &str) {
    let snap = w.snapshot();
    let n = snap.statuses.len();
    // I1 Have is monotone
    for i in 0..n {
        let have = snap.statuses[i] == Status::Have;
        if inv.have_seen[i] && !have {
            inv.fails.push(("owned-piece-lost".into(), format!("{}: piece {} was Have and is now {:?}", what, i, snap.statuses[i])));
        }
        if have {
            inv.have_seen[i] = true;
        }
    }
    // I2 every reservation is backed by a live fetcher
    for i in 0..n {
        if let Status::Reserved(k) = snap.statuses[i] {
            if k == 0 {
                continue;
            }
            let mut backed = false;
            let mut why = vec![];
            for ps in snap.peers.iter().filter(|ps| ps.piece_index == Some(i)) {
                match net.peers.iter().find(|rp| rp.addr == ps.addr) {
                    None => why.push(format!("{} unknown to the harness", ps.addr)),
                    Some(rp) => {
                        if rp.closed && !w.handler_alive(rp.conn) {
                            why.push(format!("{} is gone", ps.addr));
                        } else if rp.chokes_client {
                            why.push(format!("{} is choking the client", ps.addr));
                        } else if !rp.requested_since_assignment.contains(&(i as u32)) {
                            why.push(format!("{} was never asked for it in its current assignment", ps.addr));
                        } else {
                            backed = true;
                        }
                    }
                }
            }
            if !backed {
                let holders: Vec<String> = snap.peers.iter().filter(|ps| ps.piece_index == Some(i)).map(|ps| ps.addr.clone()).collect();
                let sig = if holders.is_empty() {
                    "reserved-without-any-assigned-peer"
                } else if why.iter().all(|y| y.contains("choking")) {
                    "reserved-by-peer-that-chokes-us"
                } else if why.iter().all(|y| y.contains("never asked")) {
                    "reserved-but-never-requested"
                } else {
                    "reserved-without-live-fetcher"
                };
                inv.fails.push((
                    sig.into(),
                    format!("{}: piece {} is Reserved({}) but no connected, unchoking peer has been asked for it (assigned peers: {:?}; {:?}); statuses {:?}", what, i, k, holders, why, snap.statuses),
                ));
            }
        }
    }
    // I5 (C13 seen from the wire): an assignment never picks a piece that is already being fetched from another peer
    // unless fewer than ten pieces are missing. Reported under a c13- signature; C12 itself ignores it.
    for cr in w.cmds.iter().skip(inv.cmds_checked) {
        // I1 at manager-step granularity: no handled command turns an owned piece into anything else
        for i in 0..cr.before.len().min(cr.after.len()) {
            if cr.before[i] == Status::Have && cr.after[i] != Status::Have {
                inv.fails.push((
                    "owned-piece-lost".into(),
                    format!("{}: handling {} from {} turned piece {} from Have into {:?} (statuses {:?} -> {:?})", what, cr.kind, cr.addr, i, cr.after[i], cr.before, cr.after),
                ));
            }
        }
        // I6 (C13 seen from the wire): "it picks nothing exactly when no such piece exists" - an unchoking peer that
        // advertises a piece nobody is fetching and the client lacks must be given one
        if matches!(cr.kind, "RecvUnchoke" | "PieceDone") && cr.peer_piece_after.is_none() {
            if let Some(rp) = net.peers.iter().find(|rp| rp.addr == cr.addr) {
                if !rp.chokes_client && !rp.closed && rp.sent_handshake {
                    let done = if cr.kind == "PieceDone" { cr.peer_piece_before } else { None };
                    if let Some(i) = (0..cr.before.len().min(rp.client_view.len()))
                        .find(|i| cr.before[*i] == Status::Missing && cr.after[*i] == Status::Missing && rp.client_view[*i] && Some(*i) != done)
                    {
                        inv.fails.push((
                            "c13-nothing-picked-although-candidate-exists".into(),
                            format!("{}: on {} from {} the manager picked nothing although the peer advertises piece {} which is Missing (statuses {:?})", what, cr.kind, cr.addr, i, cr.before),
                        ));
                    }
                }
            }
        }
        if matches!(cr.kind, "RecvUnchoke" | "RecvHave" | "PieceDone" | "PieceCancel") {
            if let Some(i) = cr.peer_piece_after {
                let newly = cr.peer_piece_before != Some(i) || cr.kind != "RecvHave";
                let missing_before = cr.before.iter().filter(|s| **s != Status::Have).count();
                // after PieceDone the finished piece no longer counts as missing when the choice is made
                let missing = if cr.kind == "PieceDone" { missing_before.saturating_sub(1) } else { missing_before };
                if newly && i < cr.before.len() {
                    if let Status::Reserved(k) = cr.before[i] {
                        // (on an Unchoke the peer was choking until now: whatever index the manager still remembers for
                        // it is stale, the piece is not "its own")
                        let own = cr.kind != "RecvUnchoke" && cr.peer_piece_before == Some(i);
                        if k > 0 && !own && missing >= 10 {
                            inv.fails.push((
                                "c13-assigned-piece-already-being-fetched-outside-end-game".into(),
                                format!("{}: on {} from {} the manager assigned piece {} which was Reserved({}) by another peer while {} pieces were still missing", what, cr.kind, cr.addr, i, k, missing),
                            ));
                        }
                    }
                }
            }
        }
    }
    inv.cmds_checked = w.cmds.len();
    // I3 requests only for advertised pieces the client lacked at assignment
    for rp in &net.peers {
        for (b, f) in rp.log.iter().filter(|(b, _)| *b == net.barrier_no) {
            if let crate::refmodel::wire::RFrame::Request(i, _, _) = f {
                let i = *i as usize;
                let _ = b;
                if i >= n {
                    inv.fails.push(("request-for-nonexistent-piece".into(), format!("{}: {} asked for piece {}", what, rp.addr, i)));
                } else if !rp.advertised[i] {
                    inv.fails.push(("request-for-unadvertised-piece".into(), format!("{}: {} was asked for piece {} it never advertised", what, rp.addr, i)));
                    // the same observation is a violation of C13's first clause (the pick is a piece the peer advertises)
                    inv.fails.push(("c13-picked-piece-the-peer-never-advertised".into(), format!("{}: {} was asked for piece {} it never advertised", what, rp.addr, i)));
                } else if inv.have_seen[i] {
                    // was it already owned when the assignment was made?
                    let assigned_while_owned = w
                        .cmds
                        .iter()
                        .rev()
                        .find(|cr| cr.addr == rp.addr && matches!(cr.kind, "RecvUnchoke" | "RecvHave" | "PieceDone" | "PieceCancel") && cr.peer_piece_after == Some(i))
                        .map(|cr| cr.after[i] == Status::Have && cr.before[i] == Status::Have)
                        .unwrap_or(false);
                    if assigned_while_owned {
                        inv.fails.push(("request-for-owned-piece".into(), format!("{}: {} was assigned piece {} which the client already owned", what, rp.addr, i)));
                    }
                }
            }
        }
    }
}

/// One honest peer that has everything joins and serves until the download completes. Returns false if it does not.
pub async fn finisher(w: &mut World, net: &mut Net, inv: &mut Inv, check: bool) -> bool {
    let n = net.t.geo.pieces_num();
    let f = net.connect(w, false);
    net.handshake(w, f);
    net.bitfield(w, f, &vec![true; n]);
    net.observe(w).await;
    net.unchoke(w, f);
    net.observe(w).await;
    if check {
        check_invariants(w, net, inv, "finisher joined");
    }
    let mut idle = 0;
    for _round in 0..(40 * n + 200) {
        if w.fatal().is_some() {
            return false;
        }
        if w.snapshot().statuses.iter().all(|s| *s == Status::Have) {
            return true;
        }
        if !net.alive(w, f) {
            return false;
        }
        if net.peers[f].view.outstanding.is_empty() {
            idle += 1;
            // nothing asked: let timers run (choke rotation, keep-alives) a little
            w.advance_by(std::time::Duration::from_secs(11)).await;
            net.fold(w);
            if idle > 12 {
                return false;
            }
            continue;
        }
        idle = 0;
        net.answer(w, f, 0);
        net.observe(w).await;
        if check {
            check_invariants(w, net, inv, "finisher serving");
            if !inv.fails.is_empty() {
                return false;
            }
        }
    }
    w.snapshot().statuses.iter().all(|s| *s == Status::Have)
}

pub fn check(c: &Case) -> Outcome {
    let mut o = check_all(c);
    o.fails.retain(|f| !f.signature.starts_with("c13-"));
    o
}

/// The same histories judged only by the wire-level C13 clause (used by C13's sub `histories`).
pub fn check_c13_only(c: &Case) -> Outcome {
    let mut o = check_all(c);
    o.fails.retain(|f| f.signature.starts_with("c13-"));
    o
}

/// Decoder for the coverage-guided campaign (fuzz target fz_hist): 3 header bytes, then one opcode byte and one or two
/// argument bytes per op, up to 120 ops.
pub fn case_from_bytes(data: &[u8]) -> Case {
    let mut r = crate::gen::ByteReader::new(data);
    let pieces = 3 + r.below(38);
    let piece_len = if r.bool() { 1 } else { 1 + r.below(64) };
    let seed = r.u16() as u64;
    let mut ops = vec![];
    while !r.done() && ops.len() < 120 {
        let op = match r.below(20) {
            0 | 1 => Op::Join(r.u8() as u64 | ((r.u8() as u64) << 8) | ((r.u8() as u64) << 16) | ((r.u8() as u64) << 24)),
            2 => Op::Have(r.ix(), r.ix()),
            3 => Op::Bitfield(r.ix(), r.u32() as u64),
            4 => Op::Choke(r.ix()),
            5 => Op::ChokeKeep(r.ix()),
            6 | 7 | 8 => Op::Unchoke(r.ix()),
            9 => Op::UnchokeTwice(r.ix()),
            10 => Op::Interested(r.ix()),
            11 => Op::NotInterested(r.ix()),
            12 | 13 | 14 => Op::Deliver(r.ix()),
            15 => Op::DeliverAll(r.ix()),
            16 => Op::DeliverCancelled(r.ix()),
            17 => Op::DeliverAllPeersAtOnce,
            18 => {
                match r.below(3) {
                    0 => Op::Wait,
                    1 => Op::DeliverWhileOtherLeaves(r.ix(), r.ix()),
                    _ => Op::DeliverWhileOtherChokes(r.ix(), r.ix()),
                }
            }
            19 if r.bool() => {
                if r.bool() {
                    Op::ManagerLate(r.ix(), r.ix())
                } else {
                    Op::Rehandshake(r.ix())
                }
            }
            _ => Op::Disconnect(r.ix()),
        };
        ops.push(op);
    }
    Case { pieces, piece_len, ops, seed }
}

pub fn histories_strategy() -> BoxedStrategy<Case> {
    strategy()
}

pub fn check_all(c: &Case) -> Outcome {
    let mut o = Outcome::new();
    fresh_cwd();
    let total = c.pieces * c.piece_len;
    let t = Torrent::new(Geometry::single(c.piece_len, total, c.seed));
    let c2 = c.clone();
    let t2 = t.clone();
    let res = swarm::run(c.seed, &t, move |w: &mut World| {
        Box::pin(async move {
            let c = c2;
            let mut net = Net::new(&t2);
            let mut inv = Inv { fails: vec![], have_seen: vec![false; c.pieces], cmds_checked: 0 };
            let mut classes: Vec<&'static str> = vec![];
            let mut max_missing_with_peers = 0usize;
            for (step, op) in c.ops.iter().enumerate() {
                if w.fatal().is_some() || !inv.fails.is_empty() {
                    break;
                }
                let live: Vec<usize> = (0..net.peers.len()).filter(|p| net.alive(w, *p)).collect();
                let pick = |i: u16| -> Option<usize> {
                    if live.is_empty() {
                        None
                    } else {
                        Some(live[idx(i, live.len())])
                    }
                };
                match op {
                    Op::Join(bits) => {
                        if net.peers.iter().filter(|p| !p.closed).count() < 5 {
                            let p = net.connect(w, false);
                            net.handshake(w, p);
                            net.bitfield(w, p, &bits_from(*bits, c.pieces));
                        }
                    }
                    Op::Have(p, i) => {
                        if let Some(p) = pick(*p) {
                            let i = idx(*i, c.pieces);
                            net.have(w, p, i);
                        }
                    }
                    Op::Bitfield(p, bits) => {
                        if let Some(p) = pick(*p) {
                            let b = bits_from(*bits, c.pieces);
                            // what the peer advertised before stays advertised from the harness's point of view
                            let merged: Vec<bool> = b.iter().zip(net.peers[p].advertised.iter()).map(|(x, y)| *x || *y).collect();
                            net.bitfield(w, p, &b);
                            net.peers[p].advertised = merged;
                            classes.push("repeated-bitfield");
                        }
                    }
                    Op::Choke(p) => {
                        if let Some(p) = pick(*p) {
                            let assigned = w.snapshot().peers.iter().any(|ps| ps.addr == net.peers[p].addr && ps.piece_index.is_some());
                            if assigned {
                                classes.push("choke-while-assigned");
                            }
                            if net.peers[p].chokes_client {
                                classes.push("redundant-choke");
                            }
                            net.choke(w, p);
                        }
                    }
                    Op::ChokeKeep(p) => {
                        if let Some(p) = pick(*p) {
                            let assigned = w.snapshot().peers.iter().any(|ps| ps.addr == net.peers[p].addr && ps.piece_index.is_some());
                            if assigned {
                                classes.push("choke-while-assigned");
                            }
                            if net.peers[p].chokes_client {
                                classes.push("redundant-choke");
                            }
                            let keep = net.peers[p].view.outstanding.clone();
                            net.choke(w, p);
                            net.peers[p].view.outstanding = keep;
                        }
                    }
                    Op::Unchoke(p) => {
                        if let Some(p) = pick(*p) {
                            if !net.peers[p].chokes_client {
                                classes.push("redundant-unchoke");
                            }
                            net.unchoke(w, p);
                        }
                    }
                    Op::UnchokeTwice(p) => {
                        if let Some(p) = pick(*p) {
                            net.unchoke(w, p);
                            net.observe(w).await;
                            check_invariants(w, &net, &mut inv, &format!("step {} {:?} (first)", step, op));
                            net.unchoke(w, p);
                            classes.push("redundant-unchoke");
                        }
                    }
                    Op::Interested(p) => {
                        if let Some(p) = pick(*p) {
                            net.interested(w, p, true);
                        }
                    }
                    Op::NotInterested(p) => {
                        if let Some(p) = pick(*p) {
                            net.interested(w, p, false);
                        }
                    }
                    Op::Deliver(p) => {
                        // prefer a peer that has something outstanding
                        let with_req: Vec<usize> = live.iter().copied().filter(|p| !net.peers[*p].view.outstanding.is_empty()).collect();
                        if !with_req.is_empty() {
                            let p = with_req[idx(*p, with_req.len())];
                            if net.peers[p].chokes_client {
                                classes.push("block-delivered-while-choking");
                            }
                            net.answer(w, p, 0);
                        }
                    }
                    Op::DeliverAll(p) => {
                        let with_req: Vec<usize> = live.iter().copied().filter(|p| !net.peers[*p].view.outstanding.is_empty()).collect();
                        if !with_req.is_empty() {
                            let p = with_req[idx(*p, with_req.len())];
                            while net.answer(w, p, 0).is_some() {}
                        }
                    }
                    Op::DeliverAllPeersAtOnce => {
                        let with_req: Vec<usize> = live.iter().copied().filter(|p| !net.peers[*p].view.outstanding.is_empty()).collect();
                        if with_req.len() >= 2 {
                            classes.push("several-peers-deliver-in-one-barrier");
                        }
                        for p in with_req {
                            net.answer(w, p, 0);
                        }
                    }
                    Op::Wait => {
                        w.advance_by(std::time::Duration::from_secs(11)).await;
                        classes.push("stats-tick-passed");
                    }
                    Op::DeliverWhileOtherLeaves(a, b) => {
                        let with_req: Vec<usize> = live.iter().copied().filter(|p| !net.peers[*p].view.outstanding.is_empty()).collect();
                        if with_req.len() >= 2 {
                            let pa = with_req[idx(*a, with_req.len())];
                            let others: Vec<usize> = with_req.iter().copied().filter(|p| *p != pa).collect();
                            let pb = others[idx(*b, others.len())];
                            // prefer the interesting race: both were asked for the same piece
                            let same = net.peers[pa].view.outstanding.front().map(|r| r.0) == net.peers[pb].view.outstanding.front().map(|r| r.0);
                            if same {
                                classes.push("fetcher-leaves-as-the-other-completes-the-same-piece");
                            }
                            // pb's connection drops while pa's block is on its way, and pb's task does not get to run until the
                            // manager has handled pa's completion: when it runs again both the Have broadcast and the end of
                            // its stream are waiting, in an order decided by select!'s (seeded) coin
                            let cb = net.peers[pb].conn;
                            w.frozen.insert(cb);
                            net.disconnect(w, pb);
                            net.answer(w, pa, 0);
                            net.observe(w).await;
                            w.frozen.remove(&cb);
                            classes.push("connection-dropped-between-completion-and-broadcast");
                            classes.push("disconnect-while-assigned");
                        }
                    }
                    Op::DeliverWhileOtherChokes(a, b) => {
                        let with_req: Vec<usize> = live.iter().copied().filter(|p| !net.peers[*p].view.outstanding.is_empty()).collect();
                        if with_req.len() >= 2 {
                            let pa = with_req[idx(*a, with_req.len())];
                            let others: Vec<usize> = with_req.iter().copied().filter(|p| *p != pa).collect();
                            let pb = others[idx(*b, others.len())];
                            let same = net.peers[pa].view.outstanding.front().map(|r| r.0) == net.peers[pb].view.outstanding.front().map(|r| r.0);
                            if same {
                                classes.push("fetcher-chokes-as-the-other-completes-the-same-piece");
                            }
                            let cb = net.peers[pb].conn;
                            w.frozen.insert(cb);
                            net.choke(w, pb);
                            net.answer(w, pa, 0);
                            net.observe(w).await;
                            w.frozen.remove(&cb);
                            classes.push("choke-while-assigned");
                        }
                    }
                    Op::DeliverCancelled(p) => {
                        let with_c: Vec<usize> = live.iter().copied().filter(|p| !net.peers[*p].view.cancelled_pending.is_empty()).collect();
                        if !with_c.is_empty() {
                            let p = with_c[idx(*p, with_c.len())];
                            let (i, b, l) = net.peers[p].view.cancelled_pending.pop_front().unwrap();
                            let data = net.t.piece(i as usize)[b as usize..(b + l) as usize].to_vec();
                            w.send_frame(net.peers[p].conn, &crate::refmodel::wire::RFrame::Piece(i, b, data));
                            classes.push("late-block-after-cancel");
                        }
                    }
                    Op::Rehandshake(p) => {
                        if let Some(p) = pick(*p) {
                            net.handshake(w, p);
                            classes.push("handshake-repeated-mid-session");
                        }
                    }
                    Op::ManagerLate(a, b) => {
                        if live.len() >= 2 {
                            let flooder = live[idx(*a, live.len())];
                            let others: Vec<usize> = live.iter().copied().filter(|p| *p != flooder).collect();
                            let other = others[idx(*b, others.len())];
                            let assigned = w.snapshot().peers.iter().any(|ps| ps.addr == net.peers[other].addr && ps.piece_index.is_some());
                            w.manager_stalled = true;
                            // (interested only: a not-interested makes the task wait for the manager's answer)
                            for _ in 0..70 {
                                net.interested(w, flooder, true);
                            }
                            w.settle().await;
                            net.choke(w, other);
                            w.settle().await;
                            w.manager_stalled = false;
                            classes.push("manager-not-scheduled-while-its-queue-fills");
                            if assigned {
                                classes.push("choke-while-assigned");
                                classes.push("choke-while-assigned-and-manager-queue-full");
                            }
                        }
                    }
                    Op::Disconnect(p) => {
                        if let Some(p) = pick(*p) {
                            let assigned = w.snapshot().peers.iter().any(|ps| ps.addr == net.peers[p].addr && ps.piece_index.is_some());
                            if assigned {
                                classes.push("disconnect-while-assigned");
                            }
                            net.disconnect(w, p);
                        }
                    }
                }
                net.observe(w).await;
                if w.fatal().is_some() {
                    break;
                }
                check_invariants(w, &net, &mut inv, &format!("step {} {:?}", step, op));
                let snap = w.snapshot();
                let missing = snap.statuses.iter().filter(|s| **s != Status::Have).count();
                if snap.peers.len() >= 2 {
                    max_missing_with_peers = max_missing_with_peers.max(missing);
                }
            }
            if std::env::var("VERIF_DEBUG").is_ok() {
                for cr in &w.cmds {
                    eprintln!("{:?} {} {} piece {:?}->{:?} {:?} -> {:?}", cr.t, cr.kind, cr.addr, cr.peer_piece_before, cr.peer_piece_after, cr.before, cr.after);
                }
            }
            let peers_used = net.peers.len();
            let mut completed = true;
            if w.fatal().is_none() && inv.fails.is_empty() {
                completed = finisher(w, &mut net, &mut inv, true).await;
            }
            let fatal = w.fatal();
            let statuses = w.snapshot().statuses;
            (inv.fails, classes, fatal, completed, statuses, peers_used, max_missing_with_peers)
        })
    });
    match res {
        Err(p) => o.fail(panic_signature(&p), format!("runtime panic: {}", p)),
        Ok((fails, classes, fatal, completed, statuses, peers_used, max_missing)) => {
            for cl in classes {
                o.class(cl);
            }
            o.class_if(peers_used >= 2, ">=2-peers");
            o.class_if(max_missing >= 10, ">=10-missing-with-2-peers");
            o.class_if(c.pieces >= 11, ">=11-pieces");
            for (s, d) in fails {
                o.fail(s, d);
            }
            if let Some((sig, d)) = fatal {
                let sig = if d.contains("not requested") { "manager-panic-piece-not-requested".to_string() } else { sig };
                o.fail(sig, d);
            } else if !completed && o.ok() {
                o.fail(
                    "download-stuck-with-honest-seeder",
                    format!("with an honest peer holding every piece connected and unchoking, the download did not complete; statuses {:?}", statuses),
                );
            }
        }
    }
    o.nontrivial = o.classes.contains(&">=2-peers")
        && (o.classes.contains(&"choke-while-assigned") || o.classes.contains(&"disconnect-while-assigned"))
        && o.classes.contains(&">=10-missing-with-2-peers");
    o
}

pub fn def() -> PropDef {
    PropDef {
        id: "C12",
        rule: "up to 5 scripted remote peers and 3-16 single-block pieces (1-64 bytes) on the swarm runtime, driven through the real connection tasks so that only command sequences a task can emit reach the manager; a global history of up to 80 ops {join with a generated bitfield, have, choke, unchoke, unchoke twice, interested, not-interested, deliver next outstanding block, deliver all, disconnect, a repeated valid handshake mid-session, deliver-while-the-other-fetcher-chokes (its Choke and the manager's broadcast wait for the frozen task together), manager-late (the manager is not scheduled while one peer's 70 Interested messages fill its 64-entry command queue and another peer chokes the client; then it runs again)}, redundant and out-of-order events on purpose. After every barrier: Have is monotone; every Reserved(n>=1) piece is assigned to some connected peer that is not choking the client (by the last Choke/Unchoke it sent) and that has been sent a Request for it in its current assignment (one-directional: an unreserved fetched piece is not a violation); every Request names a piece the peer advertised and the client lacked when assigned; no manager step or task panics (a manager Err counts: the event loop expect()s it). Finally an honest peer holding everything joins and the download must complete. Non-trivial = >= 2 peers, a choke or disconnect while a piece was assigned, and >= 10 pieces missing at some point with 2 peers connected; distinct by hash of the case.",
        assumptions: &[
            "blocks are always correct in this check (corrupt data is C01's subject)",
            "KillReq is stepped as kill_peer only; respawn/re-announce is covered by the real-process layer",
        ],
        subs: vec![Sub {
            name: "histories",
            cases: |t| t.pick(12_000, 200_000),
            run: |ctx| run_proptest(ctx, "histories", strategy(), check),
            replay: |v| replay_case::<Case>(v, check),
            min_class: &[(">=2-peers", 0.4196), ("choke-while-assigned", 0.2), ("disconnect-while-assigned", 0.1), (">=10-missing-with-2-peers", 0.15), ("redundant-unchoke", 0.2), ("redundant-choke", 0.1), ("block-delivered-while-choking", 0.02), ("repeated-bitfield", 0.1), ("late-block-after-cancel", 0.01), ("fetcher-leaves-as-the-other-completes-the-same-piece", 0.005), ("choke-while-assigned-and-manager-queue-full", 0.05), ("handshake-repeated-mid-session", 0.15), ("fetcher-chokes-as-the-other-completes-the-same-piece", 0.01)],
        }],
    }
}
