//! C19 — Tracker replies are read faithfully and tracker faults are survived.
//! This file: (a) reply parsing. The fault-sequence part (b) lives in e2e.rs and is added as sub `faults`.

use crate::conv::show_bytes;
use crate::engine::*;
use crate::gen::bencode::*;
use crate::props::c16::{apply_muts, Mut};
use crate::refmodel::bencode::{self as rb, RVal};
use proptest::collection::vec;
use proptest::prelude::*;
use serde::{Deserialize, Serialize};

#[derive(Clone, Debug, Serialize, Deserialize)]
pub enum Entry {
    Good { ip: String, id: Vec<u8>, port: u16 },
    MissingKey { which: u8 },
    WrongType { which: u8 },
    BadIdLen { len: u8 },
    NegativePort,
    NonUtf8Ip,
    NotADict(RVal),
}

#[derive(Clone, Debug, Serialize, Deserialize)]
pub struct Case {
    pub interval: i64,
    pub entries: Vec<Entry>,
    pub extra_top: Vec<(Vec<u8>, RVal)>,
    pub extra_entry: Vec<(Vec<u8>, RVal)>,
    pub rot: u8,
    pub failure: Option<String>,
    pub trailing: Vec<RVal>,
}

fn ip() -> BoxedStrategy<String> {
    prop_oneof![
        3 => (any::<u8>(), any::<u8>(), any::<u8>(), any::<u8>()).prop_map(|(a, b, c, d)| format!("{}.{}.{}.{}", a, b, c, d)),
        1 => Just("::1".to_string()),
        1 => "[a-z]{1,8}\\.example",
        1 => Just("ü.example".to_string()),
    ]
    .boxed()
}

fn entry() -> BoxedStrategy<Entry> {
    prop_oneof![
        6 => (ip(), vec(any::<u8>(), 20..=20), prop_oneof![any::<u16>(), Just(0u16), Just(65535u16), Just(6881u16)])
            .prop_map(|(ip, id, port)| Entry::Good { ip, id, port }),
        1 => (0u8..3).prop_map(|which| Entry::MissingKey { which }),
        1 => (0u8..3).prop_map(|which| Entry::WrongType { which }),
        1 => prop::sample::select(vec![0u8, 1, 19, 21, 40]).prop_map(|len| Entry::BadIdLen { len }),
        1 => Just(Entry::NegativePort),
        1 => Just(Entry::NonUtf8Ip),
        1 => prop_oneof![Just(RVal::Int(7)), Just(RVal::s("1.2.3.4:80")), Just(RVal::List(vec![]))].prop_map(Entry::NotADict),
    ]
    .boxed()
}

fn strategy() -> BoxedStrategy<Case> {
    let key = prop::sample::select(vec![
        b"complete".to_vec(), b"incomplete".to_vec(), b"min interval".to_vec(), b"tracker id".to_vec(), b"warning message".to_vec(), b"zz".to_vec(), b"a".to_vec(),
    ]);
    (
        prop_oneof![0i64..100000, Just(0i64), Just(1800), Just(i64::MAX)],
        vec(entry(), 0..30),
        vec((key.clone(), rval_any(6)), 0..3),
        vec((key, rval_any(6)), 0..2),
        0u8..5,
        prop_oneof![
            8 => Just(None),
            2 => "[ -~]{0,30}".prop_map(Some),
            2 => Just(Some("törrent nöt regïstered".to_string())),
            // long reasons; multi-byte characters fall on every offset modulo small powers of two over the run
            1 => (0usize..1100, "[a-zé€ ]{0,40}").prop_map(|(n, tail)| Some(format!("{}{}{}", "x".repeat(n), "é€ü", tail))),
            1 => (1usize..700).prop_map(|n| Some("é".repeat(n))),
        ],
        prop_oneof![4 => Just(vec![]), 1 => vec(rval_any(6), 1..3)],
    )
        .prop_map(|(interval, entries, extra_top, extra_entry, rot, failure, trailing)| Case { interval, entries, extra_top, extra_entry, rot, failure, trailing })
        .boxed()
}

fn entry_rval(e: &Entry, extra: &[(Vec<u8>, RVal)], rot: u8) -> RVal {
    let good = |ip: RVal, id: RVal, port: RVal| vec![(b"ip".to_vec(), ip), (b"peer id".to_vec(), id), (b"port".to_vec(), port)];
    let mut d = match e {
        Entry::Good { ip, id, port } => good(RVal::s(ip), RVal::Str(id.clone()), RVal::Int(*port as i64)),
        Entry::MissingKey { which } => {
            let mut d = good(RVal::s("10.0.0.1"), RVal::Str(vec![b'x'; 20]), RVal::Int(1));
            d.remove(*which as usize % 3);
            d
        }
        Entry::WrongType { which } => {
            let mut d = good(RVal::s("10.0.0.2"), RVal::Str(vec![b'y'; 20]), RVal::Int(2));
            let w = *which as usize % 3;
            d[w].1 = if w == 2 { RVal::s("80") } else { RVal::Int(5) };
            d
        }
        Entry::BadIdLen { len } => good(RVal::s("10.0.0.3"), RVal::Str(vec![b'z'; *len as usize]), RVal::Int(3)),
        Entry::NegativePort => good(RVal::s("10.0.0.4"), RVal::Str(vec![b'n'; 20]), RVal::Int(-1)),
        Entry::NonUtf8Ip => good(RVal::Str(vec![0xff, 0xfe, b'.', b'1']), RVal::Str(vec![b'u'; 20]), RVal::Int(4)),
        Entry::NotADict(v) => return v.clone(),
    };
    for (k, v) in extra {
        if !d.iter().any(|(kk, _)| kk == k) {
            d.push((k.clone(), v.clone()));
        }
    }
    d.sort_by(|a, b| a.0.cmp(&b.0));
    let r = rot as usize % d.len().max(1);
    d.rotate_left(r);
    RVal::Dict(d)
}

pub fn build(c: &Case) -> Vec<u8> {
    let mut top = vec![
        (b"interval".to_vec(), RVal::Int(c.interval)),
        (b"peers".to_vec(), RVal::List(c.entries.iter().map(|e| entry_rval(e, &c.extra_entry, c.rot)).collect())),
    ];
    if let Some(f) = &c.failure {
        top.push((b"failure reason".to_vec(), RVal::s(f)));
    }
    for (k, v) in &c.extra_top {
        if !top.iter().any(|(kk, _)| kk == k) {
            top.push((k.clone(), v.clone()));
        }
    }
    top.sort_by(|a, b| a.0.cmp(&b.0));
    let r = c.rot as usize % top.len();
    top.rotate_left(r);
    let mut out = rb::encode(&RVal::Dict(top));
    for t in &c.trailing {
        rb::write(t, &mut out);
    }
    out
}

pub fn check(c: &Case) -> Outcome {
    let mut o = Outcome::new();
    let doc = build(c);
    let goods: Vec<(String, Vec<u8>)> = c
        .entries
        .iter()
        .filter_map(|e| match e {
            Entry::Good { ip, id, port } => Some((format!("{}:{}", ip, port), id.clone())),
            _ => None,
        })
        .collect();
    let n_bad = c.entries.len() - goods.len();
    // a malformed entry between two good ones
    let mut between = false;
    for i in 1..c.entries.len().saturating_sub(1) {
        if !matches!(c.entries[i], Entry::Good { .. })
            && c.entries[..i].iter().any(|e| matches!(e, Entry::Good { .. }))
            && c.entries[i + 1..].iter().any(|e| matches!(e, Entry::Good { .. }))
        {
            between = true;
        }
    }
    o.nontrivial = between || c.failure.is_some();
    o.class_if(between, "malformed-entry-between-good-ones");
    o.class_if(c.failure.is_some(), "failure-reason");
    o.class_if(c.failure.as_ref().map(|f| f.len() > 256).unwrap_or(false), "long-failure-reason");
    o.class_if(n_bad > 0, "some-malformed-entry");
    o.class_if(c.entries.is_empty(), "no-peers");
    let res = match catch(|| rdest::TrackerResp::from_bencode(&doc)) {
        Ok(r) => r,
        Err(p) => {
            o.fail(panic_signature(&p), format!("TrackerResp::from_bencode panicked on {}: {}", show_bytes(&doc), p));
            return o;
        }
    };
    match (&c.failure, res) {
        (Some(reason), Err(rdest::Error::TrackerRespFail(r))) => {
            if &r != reason {
                o.fail("failure-reason-text", format!("failure reason {:?} reported as {:?}", reason, r));
            }
        }
        // reported as a failure, through another error variant (e.g. a trailing dictionary was tried as well)
        (Some(_), Err(_)) => o.class("failure-reported-with-other-error"),
        (Some(reason), other) => o.fail(
            "failure-reason-not-reported",
            format!("reply with failure reason {:?} gave {:?} for {}", reason, other.map(|r| r.peers().len()), show_bytes(&doc)),
        ),
        (None, Ok(resp)) => {
            let peers = match catch(|| resp.peers()) {
                Ok(p) => p,
                Err(p) => {
                    o.fail(panic_signature(&p), format!("peers() panicked: {}", p));
                    return o;
                }
            };
            let got: Vec<(String, Vec<u8>)> = peers.iter().map(|(a, id)| (a.clone(), id.to_vec())).collect();
            if got != goods {
                let sig = if got.len() != goods.len() {
                    "peer-list-wrong-entries"
                } else if {
                    let mut a = got.clone();
                    let mut b = goods.clone();
                    a.sort();
                    b.sort();
                    a == b
                } {
                    "peer-list-wrong-order"
                } else {
                    "peer-list-wrong-fields"
                };
                o.fail(sig, format!("peers() = {:?}, the well-formed entries are {:?}", got.iter().map(|g| &g.0).collect::<Vec<_>>(), goods.iter().map(|g| &g.0).collect::<Vec<_>>()));
            }
        }
        (None, Err(e)) => o.fail("rejects-well-formed-reply", format!("well-formed reply rejected ({}): {}", e, show_bytes(&doc))),
    }
    o
}

#[derive(Clone, Debug, Serialize, Deserialize)]
pub struct TotCase {
    pub base: Option<Case>,
    pub raw: Vec<u8>,
    pub muts: Vec<Mut>,
}

fn tot_strategy() -> BoxedStrategy<TotCase> {
    let b = prop_oneof![4 => prop::sample::select(b":eild-0123456789".to_vec()), 1 => any::<u8>()];
    let m = prop_oneof![
        2 => any::<u16>().prop_map(Mut::Truncate),
        2 => any::<u16>().prop_map(Mut::Delete),
        2 => (any::<u16>(), b.clone()).prop_map(|(i, b)| Mut::Insert(i, b)),
        2 => (any::<u16>(), b).prop_map(|(i, b)| Mut::Replace(i, b)),
        1 => (any::<u16>(), any::<u16>()).prop_map(|(a, b)| Mut::DupSpan(a, b)),
        3 => (any::<u16>(), 0u8..10).prop_map(|(i, d)| Mut::Digit(i, d)),
    ];
    prop_oneof![
        5 => (strategy(), vec(m.clone(), 1..4)).prop_map(|(c, muts)| TotCase { base: Some(c), raw: vec![], muts }),
        1 => (bytes_strategy(80), vec(m, 0..2)).prop_map(|(raw, muts)| TotCase { base: None, raw, muts }),
    ]
    .boxed()
}

pub fn check_total_bytes(doc: &[u8], o: &mut Outcome) -> bool {
    match catch(|| rdest::TrackerResp::from_bencode(doc).map(|r| r.peers().len())) {
        Err(p) => {
            o.fail(panic_signature(&p), format!("TrackerResp parsing panicked on {}: {}", show_bytes(doc), p));
            false
        }
        Ok(r) => r.is_ok(),
    }
}

pub fn check_tot(c: &TotCase) -> Outcome {
    let mut o = Outcome::new();
    let mut doc = match &c.base {
        Some(b) => build(b),
        None => c.raw.clone(),
    };
    apply_muts(&mut doc, &c.muts);
    o.nontrivial = true;
    let acc = check_total_bytes(&doc, &mut o);
    o.class_if(acc, "accepted");
    o.class_if(!acc, "rejected");
    o
}

pub fn parse_subs() -> Vec<Sub> {
    vec![
        Sub {
            name: "replies",
            cases: |t| t.pick(300_000, 4_000_000),
            run: |ctx| run_proptest(ctx, "replies", strategy(), check),
            replay: |v| replay_case::<Case>(v, check),
            min_class: &[("malformed-entry-between-good-ones", 0.3), ("failure-reason", 0.15), ("no-peers", 0.01)],
        },
        Sub {
            name: "totality",
            cases: |t| t.pick(150_000, 2_000_000),
            run: |ctx| run_proptest(ctx, "totality", tot_strategy(), check_tot),
            replay: |v| replay_case::<TotCase>(v, check_tot),
            min_class: &[("accepted", 0.0379), ("rejected", 0.3)],
        },
    ]
}

// ------------------------------------------------------------------ long tracker outages (virtual time)

#[derive(Clone, Debug, Serialize, Deserialize)]
pub struct OutageCase {
    /// consecutive failed announces before the tracker answers well
    pub fails: u16,
    /// which kind of failure each announce meets
    pub kinds: u64,
}

fn outage_strategy() -> BoxedStrategy<OutageCase> {
    (
        prop_oneof![
            3 => 0u16..12,
            3 => prop::sample::select(vec![15u16, 16, 17, 30, 31, 32, 33, 62, 63, 64, 65, 66, 100, 127, 128, 129, 200, 255, 256, 257, 300]),
            1 => 0u16..400,
        ],
        any::<u64>(),
    )
        .prop_map(|(fails, kinds)| OutageCase { fails, kinds })
        .boxed()
}

/// The real TrackerClient::run against a loopback HTTP tracker on a runtime with a paused clock (the client's retry pauses
/// cost no real time, so outages of hundreds of announces are affordable): after `fails` failed announces of mixed kinds
/// the good reply must still be fetched and delivered, and the tracker task must not have died meanwhile.
pub fn check_outage(c: &OutageCase) -> Outcome {
    use tokio::io::{AsyncReadExt, AsyncWriteExt};
    let mut o = Outcome::new();
    o.nontrivial = c.fails >= 3;
    o.class_if(c.fails >= 3, "outage>=3-announces");
    o.class_if(c.fails >= 64, "outage>=64-announces");
    o.class_if(c.fails == 0, "no-outage");
    let c = c.clone();
    let rt = tokio::runtime::Builder::new_current_thread().enable_all().start_paused(true).build().expect("runtime");
    let res = catch(|| {
        rt.block_on(async {
            let listener = tokio::net::TcpListener::bind("127.0.0.1:0").await.map_err(|e| e.to_string())?;
            let port = listener.local_addr().unwrap().port();
            let url = format!("http://127.0.0.1:{}/announce", port);
            let torrent = format!("d8:announce{}:{}4:infod6:lengthi222e4:name4:NAME12:piece lengthi111e6:pieces40:AAAAABBBBBCCCCCDDDDDAAAAABBBBBCCCCCDDDDDee", url.len(), url);
            let m = rdest::Metainfo::from_bencode(torrent.as_bytes()).map_err(|e| format!("metainfo: {}", e))?;
            let good = b"d8:intervali1800e5:peersld2:ip9:127.0.0.17:peer id20:-XX0001-aaaaaaaaaaaa4:porti50001eed2:ip8:10.1.2.37:peer id20:-XX0001-bbbbbbbbbbbb4:porti6881eeee".to_vec();
            let fails = c.fails as usize;
            let kinds = c.kinds;
            let server = tokio::spawn(async move {
                let mut served = 0usize;
                loop {
                    let (mut s, _) = match listener.accept().await {
                        Ok(x) => x,
                        Err(_) => return served,
                    };
                    let mut head = vec![];
                    let mut tmp = [0u8; 2048];
                    while !head.windows(4).any(|w| w == b"\r\n\r\n") {
                        match s.read(&mut tmp).await {
                            Ok(0) | Err(_) => break,
                            Ok(n) => head.extend_from_slice(&tmp[..n]),
                        }
                    }
                    let http = |status: &str, body: &[u8]| {
                        let mut v = format!("HTTP/1.1 {}\r\nContent-Length: {}\r\nConnection: close\r\n\r\n", status, body.len()).into_bytes();
                        v.extend_from_slice(body);
                        v
                    };
                    let reply: Option<Vec<u8>> = if served >= fails {
                        Some(http("200 OK", &good))
                    } else {
                        match (kinds >> ((served % 16) * 4)) & 7 {
                            0 | 1 => Some(http("503 Service Unavailable", b"")),
                            2 => Some(http("500 Internal Server Error", b"oops")),
                            3 => Some(http("200 OK", b"<html>not bencode</html>")),
                            4 => Some(http("200 OK", b"d14:failure reason12:try it latere")),
                            // (cut inside a string, not at a container boundary: unterminated containers at the end of
                            // input are the known finding of C16 and would be read as a reply without peers)
                            5 => Some(http("200 OK", b"d8:intervali1800e5:pee")),
                            6 => Some(b"HTTP/1.1 200 OK\r\nContent-Length: 500\r\n\r\nd8:interval".to_vec()),
                            _ => None,
                        }
                    };
                    served += 1;
                    if let Some(r) = reply {
                        let _ = s.write_all(&r).await;
                    }
                    let _ = s.shutdown().await;
                }
            });
            let (tx, mut rx) = tokio::sync::mpsc::channel(64);
            let mut client = rdest::TrackerClient::new(b"-VF0001-ownownownown", m, tx);
            let job = tokio::spawn(async move { client.run().await });
            let start = tokio::time::Instant::now();
            // No virtual-time limit (a paused clock jumps to the next timer whenever every task waits, also while a
            // loopback reply is on its way): the wait ends when the reply is delivered, when the tracker task is gone,
            // or after 120 s of real time (hundreds of loopback announces take well under a second).
            let done = std::sync::Arc::new(std::sync::atomic::AtomicBool::new(false));
            let (wtx, mut wrx) = tokio::sync::mpsc::channel::<()>(1);
            {
                let done = done.clone();
                std::thread::spawn(move || {
                    for _ in 0..1200 {
                        std::thread::sleep(std::time::Duration::from_millis(100));
                        if done.load(std::sync::atomic::Ordering::Relaxed) {
                            return;
                        }
                    }
                    let _ = wtx.blocking_send(());
                });
            }
            let mut reported = 0usize;
            let mut resp = None;
            loop {
                tokio::select! {
                    cmd = rx.recv() => match cmd {
                        Some(rdest::verif::TrackerCmd::Fail(_)) => reported += 1,
                        Some(rdest::verif::TrackerCmd::TrackerResp(r)) => {
                            resp = Some(r);
                            break;
                        }
                        None => break,
                    },
                    _ = wrx.recv() => break,
                }
            }
            done.store(true, std::sync::atomic::Ordering::Relaxed);
            let elapsed = start.elapsed();
            let job_state = if job.is_finished() {
                match job.await {
                    Ok(()) => "ended".to_string(),
                    Err(e) if e.is_panic() => format!("panicked ({})", take_last_panic().unwrap_or_default()),
                    Err(_) => "cancelled".to_string(),
                }
            } else {
                job.abort();
                "running".to_string()
            };
            server.abort();
            let peers = resp.map(|r| r.peers());
            Ok::<_, String>((peers, reported, elapsed, job_state))
        })
    });
    drop(rt);
    match res {
        Err(p) => o.fail(panic_signature(&p), format!("panic: {}", p)),
        Ok(Err(e)) => o.fail("harness-wire-error", e),
        Ok(Ok((peers, reported, elapsed, job_state))) => match peers {
            None => o.fail(
                "good-reply-after-outage-not-delivered",
                format!("the tracker failed {} announces and would have answered well afterwards; {} failures were reported, then nothing for {:?} of virtual time; tracker task {}", c.fails, reported, elapsed, job_state),
            ),
            Some(p) => {
                let got: Vec<(String, Vec<u8>)> = p.iter().map(|(a, id)| (a.clone(), id.to_vec())).collect();
                let want = vec![("127.0.0.1:50001".to_string(), b"-XX0001-aaaaaaaaaaaa".to_vec()), ("10.1.2.3:6881".to_string(), b"-XX0001-bbbbbbbbbbbb".to_vec())];
                if got != want {
                    o.fail("good-reply-after-outage-misread", format!("after {} failed announces the good reply was read as {:?}", c.fails, got));
                }
            }
        },
    }
    o
}

#[derive(Clone, Debug, Serialize, Deserialize)]
pub struct RawCase {
    pub bytes: Vec<u8>,
}

pub fn def() -> PropDef {
    PropDef {
        id: "C19",
        rule: "sub replies: a model tracker reply (interval, 0-30 peer entries mixing well-formed dictionaries - UTF-8 ip, 20-byte id, port 0..65535 - with malformed ones: missing key, wrong type, 0/1/19/21/40-byte id, negative port, non-UTF-8 ip, non-dictionary; extra keys, rotated key order, optional UTF-8 failure reason, optional trailing values) written by the reference writer; oracle: no panic, peers() == the well-formed entries in order as ip:port with ids, failure reason => Err(TrackerRespFail(reason)). Sub totality: mutated replies and arbitrary bytes never panic. Sub faults: see DESIGN.md C19(b). Sub outage: the real TrackerClient::run against a loopback HTTP tracker under a paused clock; 0-400 consecutive failed announces (503, 500, non-bencode, failure reason, truncated bencode, body shorter than its Content-Length, connection closed) with counts around 16/32/64/128/256, then a good reply: it must be delivered with exactly the listed peers and the tracker task must still be alive. Non-trivial (replies) = a malformed entry between two good ones or a failure reason; distinct by hash of the case.",
        assumptions: &["ports above 65535 and non-UTF-8 failure reasons are not generated (the property does not say how they are read)"],
        subs: {
            let mut s = parse_subs();
            s.push(crate::e2e::c19_faults_sub());
            s.push(Sub {
                name: "outage",
                cases: |t| t.pick(480, 6_000),
                run: |ctx| run_proptest(ctx, "outage", outage_strategy(), check_outage),
                replay: |v| replay_case::<OutageCase>(v, check_outage),
                min_class: &[("outage>=3-announces", 0.3), ("outage>=64-announces", 0.1)],
            });
            s.push(Sub {
                name: "raw",
                cases: |_| 0,
                run: |_| WorkerReport::default(),
                replay: |v| replay_case::<RawCase>(v, |c| {
                    let mut o = Outcome::new();
                    check_total_bytes(&c.bytes, &mut o);
                    o
                }),
                min_class: &[],
            });
            s
        },
    }
}
