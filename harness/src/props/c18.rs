//! C18 — The tracker announce names the right torrent and client.

use crate::engine::*;
use crate::refmodel::bencode::{self as rb, RVal};
use crate::refmodel::geometry::sha1;
use crate::rt;
use proptest::collection::vec;
use proptest::prelude::*;
use serde::{Deserialize, Serialize};

#[derive(Clone, Debug, Serialize, Deserialize)]
pub struct Case {
    pub host: String,
    pub port: Option<u16>,
    pub path: String,
    /// None = no '?', Some(vec![]) = trailing '?'
    pub query: Option<Vec<(String, String)>>,
    pub total_len: u64,
    pub own_id: String,
    pub content_seed: u64,
    /// if Some, the content seed is advanced until the info-hash contains this byte
    pub want_byte: Option<u8>,
    /// where the wanted byte must sit: 0 = anywhere, 1 = first byte, 2 = last byte
    #[serde(default)]
    pub want_pos: u8,
    /// wire sub only: the tracker fails this many announces (HTTP 503) before it answers; every request is checked
    #[serde(default)]
    pub fail_first: u8,
}

pub const SPECIAL: &[u8] = &[0x00, b'&', b'%', b'+', b'=', b' ', 0xff, b'?', b'#', b'/', 0x80, b';', b'~', b'*', b'-', b'.', b'_', 0x7f, b'\n'];

fn strategy(wire: bool) -> BoxedStrategy<Case> {
    let host = if wire { Just("127.0.0.1".to_string()).boxed() } else { prop_oneof![Just("tracker.example".to_string()), Just("127.0.0.1".to_string()), "[a-z]{1,8}\\.[a-z]{2,3}"].boxed() };
    let key = prop_oneof![
        2 => "[a-z]{1,6}".boxed(),
        2 => prop::sample::select(vec![
            "passport", "transport", "support", "cleft", "xleft", "xpeer_id", "peer_idx", "nevent", "eventx", "xinfo_hash", "info_hashx", "unuploaded", "redownloaded", "numwantx", "passkey", "key", "compact",
        ]).prop_map(|s| s.to_string()).boxed(),
    ];
    let kv = (key, "[a-zA-Z0-9]{0,8}");
    (
        host,
        prop_oneof![Just(None), (1024u16..65535).prop_map(Some)],
        prop_oneof![Just("".to_string()), Just("/announce".to_string()), Just("/".to_string()), "(/[a-z0-9]{1,6}){1,3}", Just("/announce.php".to_string()), Just("/announce/".to_string()), Just("/a/b/".to_string())],
        prop_oneof![3 => Just(None), 1 => Just(Some(vec![])), 3 => vec(kv, 1..3).prop_map(Some)],
        prop_oneof![3 => 0u64..5_000_000, 1 => prop::sample::select(vec![0u64, 1, 1 << 32, 1 << 40, (1 << 32) - 1])],
        "[A-Za-z0-9]{20}",
        any::<u64>(),
        prop_oneof![1 => Just(None), 2 => prop::sample::select(SPECIAL.to_vec()).prop_map(Some), 1 => any::<u8>().prop_map(Some)],
        if wire { prop_oneof![9 => Just(0u8), 1 => 1u8..=2].boxed() } else { Just(0u8).boxed() },
        prop_oneof![2 => Just(0u8), 1 => Just(1u8), 1 => Just(2u8)],
    )
        .prop_map(|(host, port, path, query, total_len, own_id, content_seed, want_byte, fail_first, want_pos)| Case { host, port, path, query, total_len, own_id, content_seed, want_byte, fail_first, want_pos })
        .boxed()
}

pub fn announce_url(c: &Case, port_override: Option<u16>) -> String {
    let mut u = format!("http://{}", c.host);
    if let Some(p) = port_override.or(c.port) {
        u.push_str(&format!(":{}", p));
    }
    u.push_str(&c.path);
    if let Some(q) = &c.query {
        u.push('?');
        u.push_str(&q.iter().map(|(k, v)| format!("{}={}", k, v)).collect::<Vec<_>>().join("&"));
    }
    u
}

pub fn build_metainfo(c: &Case, announce: &str) -> (rdest::Metainfo, [u8; 20]) {
    let mut seed = c.content_seed;
    loop {
        let pieces = crate::refmodel::geometry::content(seed, 20);
        let info = if c.content_seed % 4 == 1 {
            // directory form: `left` is the sum of the listed files (names with dots in odd places are plain names)
            let a = c.total_len / 2;
            let file = |p: &str, l: u64| RVal::Dict(vec![(b"length".to_vec(), RVal::Int(l as i64)), (b"path".to_vec(), RVal::s(p))]);
            RVal::Dict(vec![
                (b"files".to_vec(), RVal::List(vec![file("notes..old.txt", a), file("sub/v1...2", c.total_len - a)])),
                (b"name".to_vec(), RVal::s("f")),
                (b"piece length".to_vec(), RVal::Int(16384)),
                (b"pieces".to_vec(), RVal::Str(pieces)),
            ])
        } else {
            RVal::Dict(vec![
                (b"length".to_vec(), RVal::Int(c.total_len as i64)),
                (b"name".to_vec(), RVal::s("f")),
                (b"piece length".to_vec(), RVal::Int(16384)),
                (b"pieces".to_vec(), RVal::Str(pieces)),
            ])
        };
        let hash = sha1(&rb::encode(&info));
        if let Some(b) = c.want_byte {
            let ok = match c.want_pos {
                1 => hash[0] == b,
                2 => hash[19] == b,
                _ => hash.contains(&b),
            };
            if !ok {
                seed = seed.wrapping_add(1);
                continue;
            }
        }
        let doc = rb::encode(&RVal::Dict(vec![(b"announce".to_vec(), RVal::s(announce)), (b"info".to_vec(), info)]));
        let m = rdest::Metainfo::from_bencode(&doc).expect("harness torrent must parse");
        return (m, hash);
    }
}

/// application/x-www-form-urlencoded decoding, written independently of the url crate.
pub fn form_decode(s: &str) -> Option<Vec<u8>> {
    let b = s.as_bytes();
    let mut out = vec![];
    let mut i = 0;
    while i < b.len() {
        match b[i] {
            b'+' => {
                out.push(b' ');
                i += 1;
            }
            b'%' => {
                if i + 2 >= b.len() {
                    return None;
                }
                let h = (b[i + 1] as char).to_digit(16)?;
                let l = (b[i + 2] as char).to_digit(16)?;
                out.push((h * 16 + l) as u8);
                i += 3;
            }
            x => {
                out.push(x);
                i += 1;
            }
        }
    }
    Some(out)
}

/// Check a request target (or full URL) `target` = path?query against the announce URL's components.
/// `full` = also require peer_id/port/left (wire level).
pub fn check_query(c: &Case, hash: &[u8; 20], pathquery: &str, full: bool, o: &mut Outcome) {
    let (path, query) = match pathquery.find('?') {
        Some(i) => (&pathquery[..i], &pathquery[i + 1..]),
        None => (pathquery, ""),
    };
    let want_path = if c.path.is_empty() && full { "/" } else { c.path.as_str() };
    if path != want_path {
        o.fail("announce-path-changed", format!("request path {:?} != announce path {:?} (full: {:?})", path, want_path, pathquery));
    }
    let params: Vec<(&str, &str)> = query
        .split('&')
        .filter(|p| !p.is_empty())
        .map(|p| match p.find('=') {
            Some(i) => (&p[..i], &p[i + 1..]),
            None => (p, ""),
        })
        .collect();
    if let Some(q) = &c.query {
        for (k, v) in q {
            if !params.iter().any(|(pk, pv)| pk == k && pv == v) {
                o.fail(
                    "existing-query-parameter-lost",
                    format!("announce URL parameter {}={} is not its own parameter in the request {:?}", k, v, pathquery),
                );
            }
        }
    }
    let ih: Vec<&(&str, &str)> = params.iter().filter(|(k, _)| *k == "info_hash").collect();
    if ih.len() != 1 {
        o.fail("info-hash-parameter-count", format!("{} info_hash parameters in {:?}", ih.len(), pathquery));
    } else {
        match form_decode(ih[0].1) {
            Some(d) if d == hash.to_vec() => {}
            other => o.fail(
                "info-hash-does-not-decode-to-hash",
                format!("info_hash={:?} decodes to {:?}, expected {:?} (request {:?})", ih[0].1, other, hash, pathquery),
            ),
        }
    }
    if full {
        let get = |k: &str| params.iter().find(|(pk, _)| *pk == k).map(|(_, v)| v.to_string());
        if get("peer_id").and_then(|v| form_decode(&v)) != Some(c.own_id.as_bytes().to_vec()) {
            o.fail("peer-id-parameter", format!("peer_id {:?} != own id {:?}", get("peer_id"), c.own_id));
        }
        if get("port").as_deref() != Some("6881") {
            o.fail("port-parameter", format!("port {:?} != 6881", get("port")));
        }
        if get("left") != Some(c.total_len.to_string()) {
            o.fail("left-parameter", format!("left {:?} != total length {}", get("left"), c.total_len));
        }
    }
}

fn classify(c: &Case, hash: &[u8; 20], o: &mut Outcome) {
    let needs_escape = hash.iter().any(|b| !(b.is_ascii_alphanumeric() || b"*-._".contains(b)));
    let has_query = c.query.as_ref().map(|q| !q.is_empty()).unwrap_or(false);
    o.nontrivial = needs_escape || has_query;
    o.class_if(has_query, "announce-with-query");
    o.class_if(c.query.as_ref().map(|q| q.is_empty()).unwrap_or(false), "announce-with-trailing-?");
    o.class_if(c.query.is_none(), "announce-without-query");
    o.class_if(c.content_seed % 4 == 1, "directory-form-torrent");
    for s in SPECIAL {
        if hash.contains(s) {
            o.class("hash-with-special-byte");
            break;
        }
    }
    o.class_if(hash.iter().any(|b| *b >= 0x80), "hash-non-utf8");
    o.class_if(SPECIAL.contains(&hash[19]), "hash-ends-with-special-byte");
    o.class_if(SPECIAL.contains(&hash[0]), "hash-starts-with-special-byte");
    o.class_if(c.total_len >= 1 << 32, "length>=2^32");
    let own = ["peer_id", "port", "left", "event", "info_hash", "uploaded", "downloaded", "numwant"];
    o.class_if(
        c.query.as_ref().map(|q| q.iter().any(|(k, _)| own.iter().any(|p| k.contains(p) && k != p))).unwrap_or(false),
        "existing-key-contains-client-parameter-name",
    );
}

pub fn check_pure(c: &Case) -> Outcome {
    let mut o = Outcome::new();
    let announce = announce_url(c, None);
    let (m, hash) = build_metainfo(c, &announce);
    classify(c, &hash, &mut o);
    let url = match catch(|| rdest::TrackerClient::verif_create_url(&m)) {
        Ok(u) => u,
        Err(p) => {
            o.fail(panic_signature(&p), format!("create_url panicked: {}", p));
            return o;
        }
    };
    // scheme://host[:port] prefix unchanged
    let mut prefix = format!("http://{}", c.host);
    if let Some(p) = c.port {
        prefix.push_str(&format!(":{}", p));
    }
    if !url.starts_with(&prefix) {
        o.fail("announce-host-changed", format!("url {:?} does not start with {:?}", url, prefix));
        return o;
    }
    check_query(c, &hash, &url[prefix.len()..], false, &mut o);
    o
}

pub fn check_wire(c: &Case) -> Outcome {
    use tokio::io::{AsyncReadExt, AsyncWriteExt};
    let mut o = Outcome::new();
    let res: Result<(Vec<String>, String, [u8; 20], bool), String> = rt::block_on(async {
        let listener = tokio::net::TcpListener::bind("127.0.0.1:0").await.map_err(|e| e.to_string())?;
        let port = listener.local_addr().unwrap().port();
        let announce = announce_url(c, Some(port));
        let (m, hash) = build_metainfo(c, &announce);
        let mut id = [0u8; 20];
        id.copy_from_slice(c.own_id.as_bytes());
        let (tx, mut rx) = tokio::sync::mpsc::channel(8);
        let mut client = rdest::TrackerClient::new(&id, m, tx);
        let fail_first = c.fail_first as usize;
        let server = async {
            let mut all: Vec<Vec<u8>> = vec![];
            for k in 0..=fail_first {
                let (mut s, _) = listener.accept().await.map_err(|e| e.to_string())?;
                let mut buf = vec![];
                let mut tmp = [0u8; 4096];
                while !buf.windows(4).any(|w| w == b"\r\n\r\n") {
                    let n = s.read(&mut tmp).await.map_err(|e| e.to_string())?;
                    if n == 0 {
                        break;
                    }
                    buf.extend_from_slice(&tmp[..n]);
                }
                if k < fail_first {
                    let _ = s.write_all(b"HTTP/1.1 503 Service Unavailable\r\nContent-Length: 0\r\nConnection: close\r\n\r\n").await;
                } else {
                    let body = b"d8:intervali1800e5:peerslee";
                    let resp = format!("HTTP/1.1 200 OK\r\nContent-Length: {}\r\nConnection: close\r\n\r\n", body.len());
                    let _ = s.write_all(resp.as_bytes()).await;
                    let _ = s.write_all(body).await;
                }
                let _ = s.shutdown().await;
                all.push(buf);
            }
            Ok::<Vec<Vec<u8>>, String>(all)
        };
        let run = async {
            tokio::time::timeout(std::time::Duration::from_secs(20), client.run()).await.is_ok()
        };
        let (reqs, finished) = tokio::join!(server, run);
        let reqs = reqs?;
        // the last command must be the good reply (failures come first)
        let mut got = false;
        while let Ok(cmd) = rx.try_recv() {
            got = matches!(cmd, rdest::verif::TrackerCmd::TrackerResp(_));
        }
        let mut lines = vec![];
        let mut hostline = String::new();
        for req in &reqs {
            let text = String::from_utf8_lossy(req).to_string();
            lines.push(text.lines().next().unwrap_or("").to_string());
            hostline = text.lines().find(|l| l.to_ascii_lowercase().starts_with("host:")).unwrap_or("").to_string();
        }
        let _ = announce;
        Ok((lines, format!("{}|{}", hostline, port), hash, finished && got))
    });
    let (lines, hostinfo, hash, delivered) = match res {
        Ok(x) => x,
        Err(e) => {
            o.fail("harness-wire-error", format!("loopback tracker failed: {}", e));
            return o;
        }
    };
    classify(c, &hash, &mut o);
    o.class_if(c.fail_first > 0, "announce-repeated-after-failure");
    for (k, line) in lines.iter().enumerate() {
        let parts: Vec<&str> = line.split(' ').collect();
        if parts.len() != 3 || parts[0] != "GET" {
            o.fail("request-line", format!("unexpected request line {:?}", line));
            return o;
        }
        let before = o.fails.len();
        check_query(c, &hash, parts[1], true, &mut o);
        if o.fails.len() > before && k > 0 {
            let f = o.fails.last_mut().unwrap();
            f.detail = format!("(announce #{} after {} failed ones) {}", k + 1, k, f.detail);
        }
    }
    let (hostline, port) = hostinfo.split_once('|').unwrap();
    let want = format!("127.0.0.1:{}", port);
    if !hostline.to_ascii_lowercase().ends_with(&want) {
        o.fail("host-header", format!("Host header {:?} != {:?}", hostline, want));
    }
    if !delivered {
        o.fail("tracker-reply-not-delivered", "valid tracker reply was not delivered as TrackerCmd::TrackerResp".to_string());
    }
    o
}

pub fn def() -> PropDef {
    PropDef {
        id: "C18",
        rule: "a torrent with generated content (so the info-hash is a uniformly random 20-byte string; two thirds of the cases are steered until the hash contains a chosen special byte such as NUL & % + = space 0xff), an alphanumeric 20-byte peer id, an announce URL with/without port and path, with 0-2 existing query parameters or a trailing '?', total length 0..2^40; a quarter of the torrents are directory-form (two files with dotted names such as `notes..old.txt`), `left` is then the sum of the files. Sub url: TrackerClient::create_url (hook) is split at the first '?' and at '&': host/port/path unchanged, every pre-existing parameter still its own parameter, exactly one info_hash whose form-urlencoded decoding (decoder written in the harness) is the 20 hash bytes. Sub wire: the real TrackerClient::run against a loopback HTTP listener that may answer 503 to the first one or two announces (every request, also the repeated ones, is checked); the request line must satisfy the same and carry peer_id, port=6881, left=total length; a valid reply must come back as TrackerCmd::TrackerResp. Sub listen: the unmodified Session::run in a child process inside its own network namespace, with port 6881 free or already taken by another program: a BitTorrent handshake sent to the port named in the announce must be answered with the client's own peer id (a client that refuses to start claims nothing). Non-trivial = hash has a byte that needs escaping or the announce URL has a query; distinct by hash of the case.",
        assumptions: &["peer ids are alphanumeric (the property's domain; TrackerClient unwraps from_utf8 on the id)"],
        subs: vec![
            crate::e2e::c18_listen_sub(),
            Sub {
                name: "url",
                cases: |t| t.pick(300_000, 4_000_000),
                run: |ctx| run_proptest(ctx, "url", strategy(false), check_pure),
                replay: |v| replay_case::<Case>(v, check_pure),
                min_class: &[("announce-with-query", 0.2139), ("announce-with-trailing-?", 0.0718), ("hash-with-special-byte", 0.4468), ("hash-non-utf8", 0.5), ("directory-form-torrent", 0.1)],
            },
            Sub {
                name: "wire",
                cases: |t| t.pick(800, 15_000),
                run: |ctx| run_proptest_cfg(ctx, "wire", strategy(true), check_wire, 40),
                replay: |v| replay_case::<Case>(v, check_wire),
                min_class: &[("announce-with-query", 0.2047), ("hash-with-special-byte", 0.4422), ("existing-key-contains-client-parameter-name", 0.1), ("announce-repeated-after-failure", 0.04), ("directory-form-torrent", 0.1)],
            },
        ],
    }
}
