//! C09 — Uploads return exactly the requested stored bytes, or nothing.

use crate::engine::*;
use crate::net::{seed_pieces, Net};
use crate::refmodel::geometry::*;
use crate::refmodel::wire::RFrame;
use crate::swarm::{self, World};
use proptest::collection::vec;
use proptest::prelude::*;
use serde::{Deserialize, Serialize};

#[derive(Clone, Debug, Serialize, Deserialize)]
pub enum Op {
    Request(u32, u32, u32),
    Interested,
    NotInterested,
    /// let 21 s pass (rates get reported), then run the manager's real choke rotation
    Rotate,
    /// the peer answers the client's own outstanding requests (it supplies the piece the client lacks)
    ServeClient,
    /// the peer unchokes the client (so that the client starts fetching from it)
    UnchokeClient,
    /// n back-to-back requests for full blocks of an owned piece, sent without reading anything in between: the
    /// answers exceed what the socket buffers, the client's writes have to wait for the reader
    #[serde(alias = "Burst")]
    Burst(u8),
    /// like Burst, but the peer then does not read anything for this many seconds (its receive window stays closed
    /// while the client is in the middle of writing an answer), and reads everything afterwards
    BurstThenStall(u8, u8),
    /// the connection's task is not scheduled while the manager carries out this many choke rotations (21 s apart); then
    /// it runs again and has to catch up with what the manager decided meanwhile
    LateRotations(u8),
}

#[derive(Clone, Debug, Serialize, Deserialize)]
pub struct Case {
    /// the peer announces its piece by Have instead of a bitfield: the client then never unchokes it on arrival
    #[serde(default)]
    pub have_only: bool,
    pub piece_len: usize,
    pub last_len: usize,
    pub ops: Vec<Op>,
    pub seed: u64,
}

fn strategy() -> BoxedStrategy<Case> {
    (prop::sample::select(vec![20000usize, 16384, 16385, 40000, 100]), any::<u64>())
        .prop_flat_map(|(pl, seed)| {
            let index = prop_oneof![6 => 0u32..2, 2 => Just(2u32), 1 => Just(3u32), 1 => prop::sample::select(vec![4u32, 255, 1 << 31, u32::MAX])];
            let begin = prop_oneof![
                4 => Just(0u32),
                3 => 0..(pl as u32),
                2 => prop::sample::select(vec![1u32, 16384, (pl as u32).saturating_sub(1), pl as u32, pl as u32 + 1]),
                2 => prop::sample::select(vec![u32::MAX, u32::MAX - 1, u32::MAX - 16383, u32::MAX - 16384, 1 << 31, (1u32 << 31) + 5]),
            ];
            let length = prop_oneof![
                3 => 1u32..=64,
                3 => prop::sample::select(vec![0u32, 1, 2, 16383, 16384, 16385, 32768]),
                2 => 1..=(pl as u32),
                1 => prop::sample::select(vec![u32::MAX, 1 << 31, 65536]),
            ];
            // triples that end exactly at / just beyond the piece end
            let exact = (0u32..2, 1u32..=16384u32.min(pl as u32), 0u32..3).prop_map(move |(i, l, over)| Op::Request(i, pl as u32 - l + over.min(1) * over, l));
            let op = prop_oneof![
                8 => (index, begin, length).prop_map(|(i, b, l)| Op::Request(i, b, l)),
                3 => exact,
                1 => Just(Op::Interested),
                1 => Just(Op::NotInterested),
                2 => Just(Op::Rotate),
                2 => Just(Op::ServeClient),
                1 => Just(Op::UnchokeClient),
                1 => (8u8..48).prop_map(Op::Burst),
                1 => (1u8..9).prop_map(Op::LateRotations),
                1 => (24u8..48, prop_oneof![Just(3u8), Just(9), Just(11), Just(13), Just(25), 1u8..40]).prop_map(|(n, s)| Op::BurstThenStall(n, s)),
            ];
            let valid = (1u32..2, 0u32..8, 1u32..=32).prop_map(|(i, b, l)| Op::Request(i, b, l));
            (Just(pl), 1..=pl, prop_oneof![
                6 => vec(valid, 1..3),
                2 => Just(vec![Op::Request(1, 0, 16), Op::NotInterested, Op::Rotate, Op::Request(1, 4, 16), Op::Interested, Op::Rotate, Op::Request(1, 8, 16)]),
                2 => Just(vec![]),
                // choked for lack of interest, interested again and picked as the optimistic unchoke (one of three
                // rotations is the optimistic round), loses interest, is choked by the next rotation, asks anyway
                2 => Just(vec![Op::NotInterested, Op::Rotate, Op::Interested, Op::Rotate, Op::Rotate, Op::Rotate, Op::Request(1, 0, 16), Op::NotInterested, Op::Rotate, Op::Request(1, 4, 16), Op::Rotate, Op::Request(1, 8, 16)]),
            ], vec(op, 1..30), Just(seed))
        })
        .prop_map(|(piece_len, last_len, mut pre, ops, seed)| {
            let have_only = seed % 4 == 3;
            if have_only {
                // the peer supplies its piece first, then asks for it back while the client has never unchoked it
                let mut p = vec![Op::UnchokeClient, Op::ServeClient, Op::ServeClient, Op::ServeClient, Op::ServeClient];
                let lacked = if seed % 2 == 0 { 0u32 } else { 2u32 };
                p.push(Op::Request(lacked, 0, 1));
                p.extend(pre);
                pre = p;
            }
            pre.extend(ops);
            Case { have_only, piece_len, last_len, ops: pre, seed }
        })
        .boxed()
}

/// Decoder for the coverage-guided campaign (fuzz target fz_hist).
pub fn case_from_bytes(data: &[u8]) -> Case {
    let mut r = crate::gen::ByteReader::new(data);
    let piece_len = r.pick(&[20000usize, 16384, 16385, 40000, 100]);
    let last_len = 1 + (r.u16() as usize) % piece_len;
    let seed = r.u16() as u64;
    let have_only = seed % 4 == 3;
    let mut ops = vec![];
    while !r.done() && ops.len() < 40 {
        let op = match r.below(16) {
            0..=7 => {
                let i = r.pick(&[0u32, 1, 1, 2, 3, 4, 255, 1 << 31, u32::MAX]);
                let b = match r.below(4) {
                    0 => 0,
                    1 => r.u16() as u32 % (piece_len as u32 + 2),
                    2 => r.pick(&[1u32, 16384, piece_len as u32 - 1, piece_len as u32, u32::MAX, u32::MAX - 16383, 1 << 31]),
                    _ => (piece_len as u32).saturating_sub(r.u16() as u32 % 16385),
                };
                let l = match r.below(4) {
                    0 => 1 + r.u8() as u32 % 64,
                    1 => r.pick(&[0u32, 1, 16383, 16384, 16385, 32768, u32::MAX, 1 << 31]),
                    2 => 1 + r.u16() as u32 % (piece_len as u32),
                    _ => (piece_len as u32).saturating_sub(b).min(16384),
                };
                Op::Request(i, b, l)
            }
            8 => Op::Interested,
            9 => Op::NotInterested,
            10 | 11 => Op::Rotate,
            12 | 13 => Op::ServeClient,
            14 => Op::UnchokeClient,
            15 if r.bool() => {
                if r.bool() {
                    Op::BurstThenStall(24 + r.u8() % 24, 1 + r.u8() % 40)
                } else {
                    Op::LateRotations(1 + r.u8() % 8)
                }
            }
            _ => Op::Burst(8 + r.u8() % 40),
        };
        ops.push(op);
    }
    Case { have_only, piece_len, last_len, ops, seed }
}

/// The manager's own record: does the client choke this peer? (At a quiescent barrier the connection task has been told
/// every decision; "it answers only while it has that peer unchoked" is judged by the stricter of record and wire.)
fn manager_chokes(w: &World, addr: &str) -> bool {
    w.snapshot().peers.iter().find(|p| p.addr == addr).map(|p| p.am_choked).unwrap_or(false)
}

struct Req {
    i: u32,
    b: u32,
    l: u32,
    unchoked_when_sent: bool,
    answers: usize,
    op: usize,
}

pub fn check(c: &Case) -> Outcome {
    let mut o = Outcome::new();
    fresh_cwd();
    // 3 pieces; the client will own 0 and 1; piece 1 is NOT the last, piece 2 (never owned) is the short one.
    // To also exercise a short owned piece, half of the cases use a 2-piece torrent where piece 1 is last.
    let two = c.seed % 2 == 0;
    let total = if two { c.piece_len + c.last_len } else { 2 * c.piece_len + c.last_len };
    let geo = Geometry::single(c.piece_len, total, c.seed);
    let n = geo.pieces_num();
    let t = Torrent::new(geo.clone());
    let c2 = c.clone();
    let t2 = t.clone();
    let res = swarm::run(c.seed, &t, move |w: &mut World| {
        Box::pin(async move {
            let c = c2;
            let mut fails: Vec<(String, String)> = vec![];
            let mut classes: Vec<&'static str> = vec![];
            let mut net = Net::new(&t2);
            let owned: Vec<bool> = if n == 2 { vec![false, true] } else { vec![true, true, false] };
            if !seed_pieces(w, &mut net, &owned).await {
                return (vec![("harness-setup-failed".to_string(), format!("set-up download did not complete; fatal {:?}", w.fatal()))], classes, w.fatal());
            }
            // a third of the cases: the kernel takes the client's writes to this peer only a few KiB at a time
            if c.seed % 3 == 0 {
                w.small_sndbuf = true;
                classes.push("small-kernel-send-buffer");
            }
            let p = net.connect(w, false);
            let conn = net.peers[p].conn;
            net.handshake(w, p);
            // advertises exactly the pieces the client lacks: the client stays interested, "not interested" never ends the task
            let adv: Vec<bool> = owned.iter().map(|b| !*b).collect();
            if c.have_only {
                for (i, a) in adv.iter().enumerate() {
                    if *a {
                        net.have(w, p, i);
                    }
                }
                classes.push("peer-announced-by-have-only");
            } else {
                net.bitfield(w, p, &adv);
            }
            net.observe(w).await;
            net.interested(w, p, true);
            net.observe(w).await;
            let mut reqs: Vec<Req> = vec![];
            let mut seen_frames = net.peers[p].log.len();
            for (k, op) in c.ops.iter().enumerate() {
                if !net.alive(w, p) || w.fatal().is_some() {
                    break;
                }
                match op {
                    Op::Request(i, b, l) => {
                        let unchoked = !net.peers[p].view.client_chokes_us && !manager_chokes(w, &net.peers[p].addr);
                        w.send_frame(conn, &RFrame::Request(*i, *b, *l));
                        reqs.push(Req { i: *i, b: *b, l: *l, unchoked_when_sent: unchoked, answers: 0, op: k });
                        if !unchoked {
                            classes.push("request-while-choked");
                        }
                        if (*b as u64 + *l as u64) > u32::MAX as u64 {
                            classes.push("begin+length-wraps-u32");
                        }
                    }
                    Op::Burst(cnt) | Op::BurstThenStall(cnt, _) => {
                        let unchoked = !net.peers[p].view.client_chokes_us && !manager_chokes(w, &net.peers[p].addr);
                        if let Op::BurstThenStall(_, secs) = op {
                            w.not_reading.insert(conn);
                            if unchoked {
                                classes.push("remote-stops-reading-mid-answer");
                                if *secs > 10 {
                                    classes.push("remote-stops-reading-for-more-than-10s");
                                }
                            }
                        }
                        let plen = t2.geo.piece_length(1) as u32;
                        let l = plen.min(16384);
                        for j in 0..*cnt as u32 {
                            let b = if plen > l { (j * 4096) % (plen - l + 1) } else { 0 };
                            w.send_frame(conn, &RFrame::Request(1, b, l));
                            reqs.push(Req { i: 1, b, l, unchoked_when_sent: unchoked, answers: 0, op: k });
                        }
                        if unchoked && (*cnt as usize) * (l as usize) > 300_000 {
                            classes.push("answers-exceed-socket-buffer");
                        }
                        if let Op::BurstThenStall(_, secs) = op {
                            w.advance_by(std::time::Duration::from_secs(*secs as u64)).await;
                            w.not_reading.remove(&conn);
                        }
                    }
                    Op::LateRotations(k) => {
                        w.frozen.insert(conn);
                        for _ in 0..*k {
                            w.advance_by(std::time::Duration::from_secs(21)).await;
                            net.fold(w);
                            let r = swarm::CatchUnwind(Box::pin(w.session.verif_rotate())).await;
                            match r {
                                Ok(Ok(())) => {}
                                Ok(Err(e)) => fails.push(("rotation-error".into(), format!("{}", e))),
                                Err(pn) => fails.push(("rotation-panic".into(), pn)),
                            }
                        }
                        w.frozen.remove(&conn);
                        classes.push("rotation");
                        classes.push("rotations-while-the-task-is-not-scheduled");
                    }
                    Op::ServeClient => {
                        if net.answer(w, p, 0).is_some() {
                            classes.push("peer-supplied-a-block");
                        }
                    }
                    Op::UnchokeClient => net.unchoke(w, p),
                    Op::Interested => net.interested(w, p, true),
                    Op::NotInterested => net.interested(w, p, false),
                    Op::Rotate => {
                        w.advance_by(std::time::Duration::from_secs(21)).await;
                        net.fold(w);
                        let r = swarm::CatchUnwind(Box::pin(w.session.verif_rotate())).await;
                        match r {
                            Ok(Ok(())) => {}
                            Ok(Err(e)) => fails.push(("rotation-error".into(), format!("{}", e))),
                            Err(pn) => fails.push(("rotation-panic".into(), pn)),
                        }
                        classes.push("rotation");
                    }
                }
                net.observe(w).await;
                let new: Vec<RFrame> = net.peers[p].log[seen_frames..].iter().map(|(_, f)| f.clone()).collect();
                seen_frames = net.peers[p].log.len();
                for f in &new {
                    match f {
                        RFrame::Choke => classes.push("client-choked-us"),
                        RFrame::Piece(i, b, data) => {
                            // match an earlier unanswered request
                            // identical triples may have been sent in a choked and in an unchoked phase: an answer is
                            // attributed to a request that was allowed to be answered if there is one
                            let pos = reqs
                                .iter()
                                .position(|r| r.answers == 0 && r.unchoked_when_sent && r.i == *i && r.b == *b && r.l as usize == data.len())
                                .or_else(|| reqs.iter().position(|r| r.answers == 0 && r.i == *i && r.b == *b && r.l as usize == data.len()));
                            let m = pos.map(|p| &mut reqs[p]);
                            let what = format!("op {} ({:?}): client sent Piece({},{},<{} bytes>)", k, op, i, b, data.len());
                            match m {
                                None => {
                                    let dup = reqs.iter().any(|r| r.i == *i && r.b == *b && r.l as usize == data.len());
                                    fails.push((
                                        if dup { "request-answered-twice".into() } else { "piece-without-matching-request".to_string() },
                                        format!("{} but no unanswered request has this index, offset and length", what),
                                    ));
                                }
                                Some(r) => {
                                    r.answers += 1;
                                    let i = *i as usize;
                                    let owned_now = i < n && (owned[i] || w.snapshot().statuses[i] == rdest::verif::Status::Have);
                                    if !owned_now {
                                        fails.push(("served-piece-not-owned".into(), format!("{} for a piece the client does not own", what)));
                                    } else {
                                        let piece = t2.piece(i);
                                        let end = *b as u64 + data.len() as u64;
                                        if data.len() > 16384 {
                                            fails.push(("served-more-than-16KiB".into(), what.clone()));
                                        }
                                        if end > piece.len() as u64 {
                                            fails.push(("served-range-outside-piece".into(), format!("{}; piece has {} bytes", what, piece.len())));
                                        } else if data[..] != piece[*b as usize..end as usize] {
                                            fails.push(("served-wrong-bytes".into(), format!("{}: payload differs from the stored piece's bytes {}..{}", what, b, end)));
                                        }
                                        if !r.unchoked_when_sent {
                                            fails.push((
                                                "served-while-choked".into(),
                                                format!("{} answering the request of op {} which was sent after the client's last word to us was Choke", what, r.op),
                                            ));
                                        }
                                        if data.len() > 0 {
                                            classes.push("valid-request-answered");
                                        }
                                    }
                                }
                            }
                        }
                        _ => {}
                    }
                }
                if !fails.is_empty() {
                    break;
                }
            }
            // requests that must not be answered
            if reqs.iter().any(|r| r.answers == 0 && (!r.unchoked_when_sent || r.i as usize >= n || !owned[(r.i as usize).min(n - 1)] || r.l > 16384 || (r.b as u64 + r.l as u64) > t2.geo.piece_length((r.i as usize).min(n - 1)) as u64)) {
                classes.push("invalid-request-not-answered");
            }
            if reqs.iter().filter(|r| r.answers > 0).map(|r| r.i).collect::<std::collections::BTreeSet<_>>().len() >= 2 {
                classes.push("piece-switching");
            }
            (fails, classes, w.fatal())
        })
    });
    match res {
        Err(p) => o.fail(panic_signature(&p), format!("runtime panic: {}", p)),
        Ok((fails, classes, fatal)) => {
            for cl in classes {
                o.class(cl);
            }
            for (s, d) in fails {
                o.fail(s, d);
            }
            if let Some((s, d)) = fatal {
                let s = if d.contains("request.rs") { "request-arithmetic-panic".to_string() } else { s };
                o.fail(s, d);
            }
        }
    }
    o.nontrivial = o.classes.contains(&"valid-request-answered") && o.classes.contains(&"invalid-request-not-answered");
    o
}

pub fn def() -> PropDef {
    PropDef {
        id: "C09",
        rule: "the client downloads its pieces from an honest set-up peer (piece length from {100,16384,16385,20000,40000}, generated last-piece length; 2- and 3-piece torrents so that an owned piece is also the short last one); then one peer with a valid handshake (in a quarter of the cases announcing its piece by Have only, supplying it to the client and asking for it back although the client never unchoked it) sends a history of up to 30 ops: Request(index,begin,length) from an edge-biased u32^3 (valid ranges, ranges ending exactly at / one beyond the piece end, length 0/16384/16385/2^31/2^32-1, begin near 2^32 so that begin+length wraps, index of a piece the client lacks or beyond the piece count, switching between owned pieces), interested / not-interested, the manager's real choke rotation after 21 virtual seconds (so the client really chokes and unchokes this peer), and bursts of 8..47 back-to-back full-block requests that are not read until all are sent; in a third of the cases the client's end of the connection has a 4 KiB kernel send buffer, so that its writes are accepted piecemeal; op BurstThenStall: after such a burst the remote reads nothing for 1-40 s (the client is blocked in the middle of writing an answer) and then reads everything. Oracle: every Piece frame answers exactly one earlier unanswered request with the same index, offset and length, carries exactly those bytes of the stored piece, <= 16 KiB, inside the piece, for an owned piece, and that request was sent while the client's last word to the peer was Unchoke and the manager's own record had the peer unchoked (op LateRotations: the task is not scheduled during 1-8 rotations and must catch up); no task or manager panic. Non-trivial = at least one answered valid request and one request that must not be answered; distinct by hash of the case.",
        assumptions: &["requests are sent only after a quiescence barrier, so 'the client's last word' at the time a request is read is unambiguous"],
        subs: vec![Sub {
            name: "requests",
            cases: |t| t.pick(15_000, 200_000),
            run: |ctx| run_proptest(ctx, "requests", strategy(), check),
            replay: |v| replay_case::<Case>(v, check),
            min_class: &[("valid-request-answered", 0.4), ("invalid-request-not-answered", 0.492), ("request-while-choked", 0.05), ("begin+length-wraps-u32", 0.0848), ("piece-switching", 0.03), ("rotation", 0.2207), ("client-choked-us", 0.03), ("peer-announced-by-have-only", 0.1), ("peer-supplied-a-block", 0.05), ("small-kernel-send-buffer", 0.15), ("answers-exceed-socket-buffer", 0.025), ("remote-stops-reading-for-more-than-10s", 0.035), ("rotations-while-the-task-is-not-scheduled", 0.07)],
        }],
    }
}
