//! C06 — Peer stream decoding is total, segmentation-independent and bounded.

use crate::conv::frame_to_r;
use crate::engine::*;
use crate::gen::cut;
use crate::refmodel::geometry::*;
use crate::refmodel::wire::{self, RFrame, Tail, MAX_FRAME};
use crate::swarm::{self, World};
use proptest::collection::vec;
use proptest::prelude::*;
use rdest::verif::Connection;
use serde::{Deserialize, Serialize};
use std::cell::RefCell;
use std::rc::Rc;

#[derive(Clone, Debug, Serialize, Deserialize)]
pub enum Item {
    Valid(RFrame),
    /// unknown id (never 0..=8, never 0x54), body
    Unknown(u8, Vec<u8>),
    /// a fixed-size message id with a wrong length prefix; `body_len` bytes follow the id
    WrongLen { id: u8, len: u32, body_len: u16 },
    /// length prefix above the limit, id, filler bytes
    Oversize { len: u32, id: u8, filler: u32 },
    Garbage(Vec<u8>),
    /// `count` complete unknown-id messages in a row, each with `body` bytes after the id (a long run of messages the
    /// client has to skip, typically all sitting in its buffer at once)
    UnknownRun { id: u8, count: u16, body: u8 },
}

#[derive(Clone, Debug, Serialize, Deserialize)]
pub enum CutSpec {
    Abs(u16),
    /// relative to the start of item k: start + delta
    ItemRel(u16, i8),
}

#[derive(Clone, Debug, Serialize, Deserialize)]
pub struct Case {
    pub items: Vec<Item>,
    pub cuts: Vec<CutSpec>,
    /// truncate the stream here (mapped into 0..=len) if Some
    pub truncate: Option<u16>,
    pub eof: bool,
    pub seed: u64,
}

fn small_bytes(max: usize) -> BoxedStrategy<Vec<u8>> {
    vec(any::<u8>(), 0..=max).boxed()
}

fn valid_frame(big: bool) -> BoxedStrategy<RFrame> {
    let blk = if big {
        prop_oneof![6 => small_bytes(64), 2 => small_bytes(2048), 1 => vec(any::<u8>(), 16384..=16384), 1 => vec(any::<u8>(), 65527..=65527)].boxed()
    } else {
        prop_oneof![60 => small_bytes(64), 10 => small_bytes(2048), 3 => vec(any::<u8>(), 16384..=16384)].boxed()
    };
    prop_oneof![
        2 => Just(RFrame::KeepAlive),
        1 => Just(RFrame::Choke),
        1 => Just(RFrame::Unchoke),
        1 => Just(RFrame::Interested),
        1 => Just(RFrame::NotInterested),
        2 => any::<u32>().prop_map(RFrame::Have),
        2 => small_bytes(40).prop_map(RFrame::Bitfield),
        2 => (any::<u32>(), any::<u32>(), any::<u32>()).prop_map(|(a, b, c)| RFrame::Request(a, b, c)),
        2 => (any::<u32>(), any::<u32>(), any::<u32>()).prop_map(|(a, b, c)| RFrame::Cancel(a, b, c)),
        3 => (any::<u32>(), any::<u32>(), blk).prop_map(|(a, b, d)| RFrame::Piece(a, b, d)),
        1 => (any::<[u8; 20]>(), any::<[u8; 20]>()).prop_map(|(h, p)| RFrame::handshake(h, p)),
    ]
    .boxed()
}

fn unknown_id() -> BoxedStrategy<u8> {
    prop_oneof![Just(9u8), Just(20u8), Just(255u8), Just(0x53u8), Just(0x55u8), 9u8..0x54, 0x55u8..=255].boxed()
}

fn item(big: bool) -> BoxedStrategy<Item> {
    let unk_body = if big {
        prop_oneof![5 => small_bytes(20), 2 => small_bytes(600), 1 => vec(any::<u8>(), 65535..=65535)].boxed()
    } else {
        prop_oneof![5 => small_bytes(20), 2 => small_bytes(600)].boxed()
    };
    prop_oneof![
        10 => valid_frame(big).prop_map(Item::Valid),
        4 => (unknown_id(), unk_body).prop_map(|(id, b)| Item::Unknown(id, b)),
        1 => (prop::sample::select(vec![0u8, 1, 2, 3, 4, 6, 8, 7]), 1u32..40, 0u16..40).prop_map(|(id, len, body_len)| Item::WrongLen { id, len, body_len }),
        1 => (prop_oneof![Just(65537u32), Just(65538), 65537u32..200000, Just(u32::MAX), Just(1 << 31)], prop_oneof![0u8..9, unknown_id()], prop_oneof![Just(0u32), 0u32..200, Just(70000u32)])
            .prop_map(|(len, id, filler)| Item::Oversize { len, id, filler }),
        1 => small_bytes(12).prop_map(Item::Garbage),
        1 => (unknown_id(), prop_oneof![2 => 2u16..300, 1 => prop::sample::select(vec![1000u16, 4095, 4096, 4097, 5000, 8192, 10000])], 0u8..3).prop_map(|(id, count, body)| Item::UnknownRun { id, count, body }),
    ]
    .boxed()
}

fn strategy(tier: Tier) -> BoxedStrategy<Case> {
    let big = tier == Tier::Thorough;
    let cutspec = prop_oneof![
        2 => any::<u16>().prop_map(CutSpec::Abs),
        3 => (any::<u16>(), -2i8..=6).prop_map(|(k, d)| CutSpec::ItemRel(k, d)),
        // field boundaries of the longer messages (request / piece header, handshake: protocol string, reserved, hash, id)
        2 => (any::<u16>(), prop::sample::select(vec![8i8, 9, 12, 13, 16, 17, 18, 19, 20, 21, 27, 28, 29, 47, 48, 49, 66, 67, 68, 69])).prop_map(|(k, d)| CutSpec::ItemRel(k, d)),
        2 => any::<u16>().prop_map(|k| CutSpec::ItemRel(k, 0)),
    ];
    (
        vec(item(big), 0..8),
        vec(cutspec, 0..8),
        prop_oneof![3 => Just(None), 1 => any::<u16>().prop_map(Some)],
        any::<bool>(),
        any::<u64>(),
    )
        .prop_map(|(items, cuts, truncate, eof, seed)| Case { items, cuts, truncate, eof, seed })
        .boxed()
}

fn item_bytes(it: &Item) -> Vec<u8> {
    match it {
        Item::Valid(f) => wire::encode(f),
        Item::Unknown(id, body) => wire::encode(&RFrame::Unknown(*id, body.clone())),
        Item::WrongLen { id, len, body_len } => {
            // make sure the length really is wrong for that id
            let right = match id {
                0..=3 => 1,
                4 => 5,
                6 | 8 => 13,
                _ => 100, // piece: anything below 9 is wrong
            };
            let mut len = *len;
            if *id == 7 {
                len = 1 + (len % 8); // 1..=8 < 9
            } else if len == right {
                len += 1;
            }
            let mut v = len.to_be_bytes().to_vec();
            v.push(*id);
            v.extend(std::iter::repeat(0xAB).take(*body_len as usize));
            v
        }
        Item::Oversize { len, id, filler } => {
            let mut v = len.to_be_bytes().to_vec();
            v.push(*id);
            v.extend(std::iter::repeat(0xCD).take(*filler as usize));
            v
        }
        Item::Garbage(b) => b.clone(),
        Item::UnknownRun { id, count, body } => {
            let one = wire::encode(&RFrame::Unknown(*id, vec![0x5A; *body as usize]));
            let mut v = Vec::with_capacity(one.len() * *count as usize);
            for _ in 0..*count {
                v.extend_from_slice(&one);
            }
            v
        }
    }
}

pub fn build(c: &Case) -> (Vec<u8>, Vec<usize>) {
    let mut stream = vec![];
    let mut starts = vec![];
    for it in &c.items {
        starts.push(stream.len());
        stream.extend_from_slice(&item_bytes(it));
    }
    if let Some(t) = c.truncate {
        let k = cut(t, stream.len());
        stream.truncate(k);
    }
    let mut cuts: Vec<usize> = c
        .cuts
        .iter()
        .map(|cs| match cs {
            CutSpec::Abs(i) => cut(*i, stream.len()),
            CutSpec::ItemRel(k, d) => {
                if starts.is_empty() {
                    0
                } else {
                    let s = starts[crate::gen::idx(*k, starts.len())] as i64 + *d as i64;
                    s.clamp(0, stream.len() as i64) as usize
                }
            }
        })
        .filter(|p| *p > 0 && *p < stream.len())
        .collect();
    cuts.sort();
    cuts.dedup();
    (stream, cuts)
}

#[derive(Clone, Debug, PartialEq)]
enum Ev {
    Frame(RFrame),
    End,
    Err(String),
}

struct DecState {
    events: Vec<Ev>,
    buffer_len: usize,
    max_buffer: usize,
}

pub fn check(c: &Case) -> Outcome {
    let mut o = Outcome::new();
    let (stream, cuts) = build(c);
    let full = wire::decode(&stream);
    // classes
    let has_unknown = c.items.iter().any(|i| matches!(i, Item::Unknown(..) | Item::UnknownRun { .. }));
    let has_malformed = matches!(full.tail, Tail::Error { .. });
    let cut_in_prefix = cuts.iter().any(|p| {
        // a cut inside some frame's 4-byte length prefix
        let mut start = 0usize;
        for (_, end) in &full.frames {
            if *p > start && *p < start + 4 {
                return true;
            }
            start = *end;
        }
        *p > start && *p < start + 4
    });
    let cut_after_unknown = cuts.iter().any(|p| full.frames.iter().any(|(f, end)| matches!(f, RFrame::Unknown(..)) && end == p));
    let cut_inside_unknown = {
        let mut start = 0usize;
        let mut r = false;
        for (f, end) in &full.frames {
            if matches!(f, RFrame::Unknown(..)) && cuts.iter().any(|p| *p > start + 4 && *p < *end) {
                r = true;
            }
            start = *end;
        }
        r
    };
    o.class_if(has_unknown, "unknown-id");
    o.class_if(c.items.iter().any(|i| matches!(i, Item::UnknownRun { count, .. } if *count > 4096)), "run-of-more-than-4096-unknown-messages");
    o.class_if(has_malformed, "malformed");
    o.class_if(cut_in_prefix, "cut-inside-length-prefix");
    o.class_if(cut_after_unknown, "cut-right-after-skipped-message");
    o.class_if(cut_inside_unknown, "cut-inside-unknown-message");
    o.class_if(matches!(full.tail, Tail::Ambiguous { .. }), "ambiguous-0x54");
    o.class_if(c.eof, "eof");
    o.class_if(c.eof && matches!(full.tail, Tail::Partial { .. }), "eof-inside-frame");
    o.class_if(cuts.len() + 1 >= 2, ">=2-segments");
    o.class_if(stream.len() > 65536, "stream>64KiB");
    o.nontrivial = (cuts.len() + 1 >= 2 && (has_unknown || has_malformed)) || cut_in_prefix;

    let t = Torrent::new(Geometry::single(4, 4, 1));
    let stream2 = stream.clone();
    let cuts2 = cuts.clone();
    let eof = c.eof;
    let res = swarm::run(c.seed, &t, move |w: &mut World| {
        Box::pin(async move {
            let mut fails: Vec<(String, String)> = vec![];
            let st = Rc::new(RefCell::new(DecState { events: vec![], buffer_len: 0, max_buffer: 0 }));
            let notify = Rc::new(tokio::sync::Notify::new());
            let activity = w.activity.clone();
            let (st2, notify2) = (st.clone(), notify.clone());
            let conn = w.attach_raw(move |tcp, addr| {
                Box::pin(async move {
                    let mut conn = Connection::new(addr);
                    conn.with_socket(tcp);
                    loop {
                        tokio::select! {
                            biased;
                            _ = notify2.notified() => {
                                let mut s = st2.borrow_mut();
                                s.buffer_len = conn.verif_buffer_len();
                                s.max_buffer = s.max_buffer.max(s.buffer_len);
                                activity.set(activity.get() + 1);
                            }
                            r = conn.recv_frame() => {
                                activity.set(activity.get() + 1);
                                let mut s = st2.borrow_mut();
                                s.max_buffer = s.max_buffer.max(conn.verif_buffer_len());
                                match r {
                                    Ok(Some(f)) => s.events.push(Ev::Frame(frame_to_r(&f))),
                                    Ok(None) => { s.events.push(Ev::End); break; }
                                    Err(e) => { s.events.push(Ev::Err(e.to_string())); break; }
                                }
                            }
                        }
                    }
                })
            });
            let mut bounds: Vec<usize> = cuts2.clone();
            bounds.push(stream2.len());
            let mut sent = 0usize;
            let nseg = bounds.len();
            for (k, b) in bounds.into_iter().enumerate() {
                if b > sent {
                    w.send(conn, &stream2[sent..b]);
                    sent = b;
                }
                let last = k + 1 == nseg;
                if last && eof {
                    // make sure everything was accepted by the kernel before closing
                    let mut guard = 0;
                    while !w.all_sent(conn) && guard < 1000 {
                        w.settle().await;
                        guard += 1;
                    }
                    w.close(conn);
                }
                w.settle().await;
                // probe the buffer length
                if w.handler_alive(conn) {
                    notify.notify_one();
                    w.settle().await;
                }
                // ---- oracle on the prefix delivered so far
                let prefix = &stream2[..sent];
                let d = wire::decode(prefix);
                let s = st.borrow();
                let got_frames: Vec<RFrame> = s.events.iter().filter_map(|e| if let Ev::Frame(f) = e { Some(f.clone()) } else { None }).collect();
                let ended: Option<&Ev> = s.events.iter().find(|e| !matches!(e, Ev::Frame(_)));
                let want: Vec<RFrame> = d.delivered().iter().map(|f| f.norm()).collect();
                if let Some(p) = &w.conns[conn].handler_panic {
                    fails.push((decoder_panic_signature(p), format!("decoder panicked after {} of {} bytes (cuts {:?}): {}", sent, stream2.len(), cuts2, p)));
                    break;
                }
                if matches!(d.tail, Tail::Ambiguous { .. }) {
                    // only the frames before the ambiguous message are comparable; stop here
                    if got_frames.len() >= want.len() && got_frames[..want.len()] != want[..] {
                        fails.push(("frames-differ".into(), format!("frames before an id-0x54 message differ: got {:?} want {:?}", shorts(&got_frames), shorts(&want))));
                    }
                    break;
                }
                if got_frames.len() > want.len() || got_frames[..] != want[..got_frames.len()] {
                    fails.push((
                        "frames-differ".into(),
                        format!("after {} bytes (cuts {:?}) decoder returned {:?}, reference decoding of the same bytes is {:?}", sent, cuts2, shorts(&got_frames), shorts(&want)),
                    ));
                    break;
                }
                if got_frames.len() < want.len() {
                    let errored = matches!(ended, Some(Ev::Err(_)));
                    fails.push((
                        if errored { "spurious-error-before-complete-message".into() } else { "complete-message-not-delivered".to_string() },
                        format!(
                            "after {} of {} bytes (cuts {:?}) {} complete message(s) received but only {} returned (next undelivered: {}); decoder state: {:?}",
                            sent, stream2.len(), cuts2, want.len(), got_frames.len(), want[got_frames.len()].short(), ended
                        ),
                    ));
                    break;
                }
                match &d.tail {
                    Tail::Error { due, why, start } => {
                        if sent >= *due && !matches!(ended, Some(Ev::Err(_))) {
                            fails.push((
                                "malformed-message-not-rejected".into(),
                                format!("{} at offset {} (its extent ends at {}): {} bytes delivered and the decoder has not failed (state {:?}, buffer {} bytes)", why, start, due, sent, ended, s.buffer_len),
                            ));
                            break;
                        }
                        if matches!(ended, Some(Ev::End)) {
                            fails.push(("malformed-stream-ended-cleanly".into(), format!("{} at offset {} but recv_frame reported a clean end", why, start)));
                            break;
                        }
                    }
                    Tail::Boundary | Tail::Partial { .. } => {
                        let closed = last && eof;
                        if !closed {
                            if let Some(e) = ended {
                                fails.push((
                                    "spurious-end-or-error".into(),
                                    format!("after {} bytes of a so far well-formed stream (tail {:?}) recv_frame returned {:?}", sent, d.tail, e),
                                ));
                                break;
                            }
                        } else {
                            match (&d.tail, ended) {
                                (Tail::Boundary, Some(Ev::End)) => {}
                                (Tail::Partial { .. }, Some(Ev::Err(_))) => {}
                                (Tail::Boundary, Some(Ev::Err(e))) => {
                                    fails.push(("clean-eof-reported-as-error".into(), format!("EOF at a message boundary reported as error {:?}", e)));
                                }
                                (Tail::Partial { start }, Some(Ev::End)) => {
                                    fails.push(("truncated-stream-ended-cleanly".into(), format!("EOF inside the frame starting at {} reported as a clean end", start)));
                                }
                                (_, None) => {
                                    fails.push(("blocks-after-eof".into(), format!("peer closed after {} bytes (tail {:?}) and recv_frame is still pending", sent, d.tail)));
                                }
                                _ => {}
                            }
                        }
                    }
                    Tail::Ambiguous { .. } => {}
                }
                if s.max_buffer > 4 + MAX_FRAME {
                    fails.push(("buffer-exceeds-one-frame".into(), format!("connection buffer reached {} bytes (> 4 + 65536) after {} bytes delivered", s.max_buffer, sent)));
                    break;
                }
                if ended.is_some() {
                    break;
                }
            }
            fails
        })
    });
    match res {
        Ok(fails) => {
            for (sig, d) in fails {
                o.fail(sig, d);
            }
        }
        Err(p) => o.fail(panic_signature(&p), format!("harness/runtime panic: {}", p)),
    }
    o
}


// ------------------------------------------------------------------ (c) task level

#[derive(Clone, Debug, Serialize, Deserialize)]
pub enum Fault {
    WrongLen { id: u8, len: u32, body_len: u16 },
    Oversize { len: u32, id: u8, filler: u32 },
    /// a valid message cut short, then EOF
    TruncatedThenEof(RFrame, u16),
    /// EOF at a message boundary
    CleanEof,
}

#[derive(Clone, Debug, Serialize, Deserialize)]
pub enum Pre {
    Bitfield(u8),
    Interested,
    NotInterestedNo,
    Have(u8),
    KeepAlive,
    Unknown(u8, Vec<u8>),
    Choke,
}

#[derive(Clone, Debug, Serialize, Deserialize)]
pub struct TaskCase {
    pub handshake: bool,
    pub pre: Vec<Pre>,
    pub fault: Fault,
    pub cuts: Vec<u16>,
    pub seed: u64,
}

fn task_strategy() -> BoxedStrategy<TaskCase> {
    let pre = prop_oneof![
        2 => any::<u8>().prop_map(Pre::Bitfield),
        1 => Just(Pre::Interested),
        1 => (0u8..4).prop_map(Pre::Have),
        1 => Just(Pre::KeepAlive),
        2 => (unknown_id(), small_bytes(12)).prop_map(|(i, b)| Pre::Unknown(i, b)),
        1 => Just(Pre::Choke),
    ];
    let fault = prop_oneof![
        3 => (prop::sample::select(vec![0u8, 1, 2, 3, 4, 6, 8, 7]), 1u32..40, 0u16..40).prop_map(|(id, len, body_len)| Fault::WrongLen { id, len, body_len }),
        3 => (prop_oneof![Just(65537u32), 65537u32..200000, Just(u32::MAX)], prop_oneof![0u8..9, unknown_id()], prop_oneof![1 => 0u32..200, 3 => Just(70000u32)]).prop_map(|(len, id, filler)| Fault::Oversize { len, id, filler }),
        3 => (valid_frame(false).prop_map(|f| if matches!(f, RFrame::KeepAlive) { RFrame::Have(1) } else { f }), any::<u16>()).prop_map(|(f, k)| Fault::TruncatedThenEof(f, k)),
        1 => Just(Fault::CleanEof),
    ];
    (prop::bool::weighted(0.8), vec(pre, 0..5), fault, vec(any::<u16>(), 0..4), any::<u64>())
        .prop_map(|(handshake, pre, fault, cuts, seed)| TaskCase { handshake, pre, fault, cuts, seed })
        .boxed()
}

pub fn check_task(c: &TaskCase) -> Outcome {
    let mut o = Outcome::new();
    fresh_cwd();
    let t = Torrent::new(Geometry::single(4, 16, 5));
    let ih = t.info_hash();
    // bytes before the fault
    let mut stream = vec![];
    if c.handshake {
        stream.extend_from_slice(&wire::encode(&RFrame::handshake(ih, [b'r'; 20])));
    }
    let mut sent_bitfield = false;
    for p in &c.pre {
        let f = match p {
            Pre::Bitfield(b) => {
                if sent_bitfield {
                    continue;
                }
                sent_bitfield = true;
                RFrame::Bitfield(vec![b & 0xF0])
            }
            Pre::Interested => RFrame::Interested,
            Pre::NotInterestedNo => RFrame::KeepAlive,
            Pre::Have(i) => RFrame::Have(*i as u32),
            Pre::KeepAlive => RFrame::KeepAlive,
            Pre::Unknown(id, b) => RFrame::Unknown(*id, b.clone()),
            Pre::Choke => RFrame::Choke,
        };
        stream.extend_from_slice(&wire::encode(&f));
    }
    let fault_at = stream.len();
    let (fault_bytes, eof) = match &c.fault {
        Fault::WrongLen { id, len, body_len } => (item_bytes(&Item::WrongLen { id: *id, len: *len, body_len: *body_len }), false),
        Fault::Oversize { len, id, filler } => (item_bytes(&Item::Oversize { len: *len, id: *id, filler: *filler }), false),
        Fault::TruncatedThenEof(f, k) => {
            let b = wire::encode(f);
            let keep = 1 + crate::gen::idx(*k, b.len() - 1); // 1..len-1 bytes
            (b[..keep].to_vec(), true)
        }
        Fault::CleanEof => (vec![], true),
    };
    stream.extend_from_slice(&fault_bytes);
    // the reference must agree that this is an error / EOF situation
    let d = wire::decode(&stream);
    let expect_error = matches!(d.tail, Tail::Error { .. });
    let due = match d.tail {
        Tail::Error { due, .. } => due,
        _ => stream.len(),
    };
    if !(expect_error && due <= stream.len()) && !eof {
        // e.g. a wrong-length message whose declared extent has not fully arrived: waiting is legitimate
        o.class("fault-not-yet-decidable");
        return o;
    }
    if matches!(d.tail, Tail::Ambiguous { .. }) {
        return o;
    }
    o.nontrivial = true;
    o.class(match &c.fault {
        Fault::WrongLen { .. } => "wrong-length",
        Fault::Oversize { .. } => "oversize",
        Fault::TruncatedThenEof(..) => "truncated-then-eof",
        Fault::CleanEof => "clean-eof",
    });
    o.class_if(!c.handshake, "no-handshake");
    let mut cuts: Vec<usize> = c.cuts.iter().map(|k| cut(*k, stream.len())).filter(|p| *p > 0 && *p < stream.len()).collect();
    cuts.push(fault_at);
    cuts.retain(|p| *p > 0 && *p < stream.len());
    cuts.sort();
    cuts.dedup();
    let stream2 = stream.clone();
    let res = swarm::run(c.seed, &t, move |w: &mut World| {
        Box::pin(async move {
            let conn = w.connect(None);
            let mut bounds = cuts.clone();
            bounds.push(stream2.len());
            let mut sent = 0;
            for b in bounds {
                if !w.handler_alive(conn) {
                    break;
                }
                w.send(conn, &stream2[sent..b]);
                sent = b;
                w.settle().await;
            }
            if eof && w.handler_alive(conn) {
                w.close(conn);
                w.settle().await;
            }
            let t_fault = w.now();
            let alive = w.handler_alive(conn);
            let reason = w.conns[conn].kill_reason.clone();
            let in_snapshot = w.snapshot().peers.iter().any(|p| p.addr == w.conns[conn].addr);
            // if it lingers: when does it go away, and why?
            let mut linger = None;
            if alive {
                w.advance_by(std::time::Duration::from_secs(400)).await;
                linger = Some((w.conns[conn].finished_at, w.conns[conn].kill_reason.clone()));
            }
            (t_fault, alive, reason, in_snapshot, linger, w.fatal(), sent)
        })
    });
    match res {
        Err(p) => o.fail(panic_signature(&p), format!("runtime panic: {}", p)),
        Ok((t_fault, alive, reason, in_snapshot, linger, fatal, sent)) => {
            if let Some((sig, d)) = fatal {
                o.fail(sig, d);
            }
            if sent < due && !eof {
                // the handler ended for another reason before the fault was decidable
                return o;
            }
            if alive {
                o.fail(
                    "task-lingers-after-stream-fault",
                    format!(
                        "connection task still running after {:?} ({} bytes, t={:?}); it ended only at {:?}",
                        c.fault,
                        sent,
                        t_fault,
                        linger
                    ),
                );
            } else {
                match reason.as_deref() {
                    None => o.fail("task-ended-without-killreq", "connection task finished but the manager saw no KillReq".to_string()),
                    Some(r) if r.contains("Keep alive timeout") => o.fail("fault-reported-as-keepalive-timeout", format!("reason {:?}", r)),
                    Some(_) => {}
                }
                if in_snapshot {
                    o.fail("peer-state-kept-after-stream-fault", "peer still registered in the manager after its task ended".to_string());
                }
            }
        }
    }
    o
}

#[derive(Clone, Debug, Serialize, Deserialize)]
pub struct RawParse {
    pub bytes: Vec<u8>,
}

/// Pure level (fuzz target fz_frames): one Frame::parse call on a buffer. Only one-directional, refactoring-safe
/// consequences are asserted: no panic; if a frame is returned it is the reference decoder's first frame and the
/// cursor stands at its end; a buffer the reference decodes to a complete known first frame is not rejected.
pub fn check_parse_bytes(data: &[u8]) -> Outcome {
    use rdest::verif::Frame;
    let mut o = Outcome::new();
    o.nontrivial = true;
    let d = wire::decode(data);
    let r = catch(|| {
        let mut crs = std::io::Cursor::new(data);
        let r = Frame::parse(&mut crs);
        (r.map(|f| frame_to_r(&f)), crs.position() as usize)
    });
    match r {
        Err(p) => o.fail(format!("parse-{}", panic_signature(&p)), format!("Frame::parse panicked: {}", p)),
        Ok((Ok(f), pos)) => match d.frames.first() {
            Some((rf, end)) => {
                if f != rf.norm() || pos != *end {
                    o.fail("parse-differs-from-reference", format!("Frame::parse returned {} ending at {}, reference {} ending at {}", f.short(), pos, rf.short(), end));
                }
            }
            None => {
                if !matches!(d.tail, Tail::Ambiguous { .. }) {
                    o.fail("parse-returns-frame-from-incomplete-or-malformed-bytes", format!("Frame::parse returned {} but the reference sees {:?}", f.short(), d.tail));
                }
            }
        },
        Ok((Err(e), _)) => {
            if let Some((rf, _)) = d.frames.first() {
                let unknown = matches!(rf, RFrame::Unknown(..));
                let incomplete_or_unknown = matches!(e, rdest::Error::UnknownId(_));
                if !unknown && !incomplete_or_unknown {
                    o.fail("parse-rejects-complete-valid-frame", format!("Frame::parse failed with {:?} on a buffer starting with the complete frame {}", e, rf.short()));
                }
            }
        }
    }
    o
}

fn decoder_panic_signature(p: &str) -> String {
    if p.contains("cannot advance past") || p.contains("advance out of bounds") {
        "decoder-panic-advance-past-buffer".to_string()
    } else {
        format!("decoder-{}", panic_signature(p))
    }
}

fn shorts(v: &[RFrame]) -> Vec<String> {
    v.iter().map(|f| f.short()).collect()
}

pub fn def() -> PropDef {
    PropDef {
        id: "C06",
        rule: "(items include runs of up to 10000 complete unknown-id messages in one segment) sub decoder: a stream of 0-7 items {each of the 11 valid message kinds with generated fields, unknown-id messages (never 0x54) with bodies up to 600 B (64 KiB in thorough), fixed-size ids with a wrong length prefix, length prefixes > 65536 followed by up to 70000 filler bytes, raw garbage}, optionally truncated, cut at generated positions (absolute, or relative to item starts: inside length prefixes, right after a skipped message), optionally followed by EOF; fed segment by segment with a quiescence barrier to the real Connection::recv_frame over a socketpair. Oracle on every prefix: frames returned == independent reference decoding of the bytes delivered so far (so a complete message not yet returned fails, and so does any dependence on the cuts); malformed/oversized frames rejected no later than their declared extent (capped at one max frame); EOF inside a frame = error, at a boundary = clean end, never pending; buffer <= 4+65536; no panic. Sub task: the real connection task + manager on the swarm runtime: after a valid prefix (handshake, bitfield, have, keep-alive, unknown-id messages...) a wrong-length message, an oversized frame, a truncated message followed by EOF, or a clean EOF is delivered; the task must report KillReq and finish within the same barrier (not linger until the keep-alive limit), the reason must not be the keep-alive timeout, and the manager must forget the peer. Non-trivial = >= 2 segments and an unknown/malformed item, or a cut inside a length prefix; distinct by hash of the case.",
        assumptions: &[
            "a length-prefixed message with id 0x54 is indistinguishable from a handshake for this decoder and is not generated as an 'unknown id'; streams reaching one are compared only up to it",
            "kernel AF_UNIX delivery is synchronous: bytes written by the harness are readable by the client when write returns",
        ],
        subs: vec![Sub {
            name: "decoder",
            cases: |t| t.pick(150_000, 2_000_000),
            run: |ctx| run_proptest(ctx, "decoder", strategy(ctx.tier), check),
            replay: |v| replay_case::<Case>(v, check),
            min_class: &[("unknown-id", 0.2636), ("malformed", 0.15), ("cut-inside-length-prefix", 0.15), ("cut-right-after-skipped-message", 0.03), ("cut-inside-unknown-message", 0.03), ("eof-inside-frame", 0.034), (">=2-segments", 0.3531), ("run-of-more-than-4096-unknown-messages", 0.012)],
        },
        Sub {
            name: "raw",
            cases: |_| 0,
            run: |_| WorkerReport::default(),
            replay: |v| replay_case::<RawParse>(v, |c| check_parse_bytes(&c.bytes)),
            min_class: &[],
        },
        Sub {
            name: "task",
            cases: |t| t.pick(30_000, 400_000),
            run: |ctx| run_proptest(ctx, "task", task_strategy(), check_task),
            replay: |v| replay_case::<TaskCase>(v, check_task),
            min_class: &[("wrong-length", 0.0868), ("oversize", 0.1134), ("truncated-then-eof", 0.1498), ("clean-eof", 0.03)],
        }],
    }
}
