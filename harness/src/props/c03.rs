//! C03 — Verified pieces are reassembled into exactly the described files.

use crate::engine::*;
use crate::refmodel::geometry::*;
use crate::rt;
use proptest::collection::vec;
use proptest::prelude::*;
use serde::{Deserialize, Serialize};

#[derive(Clone, Debug, Serialize, Deserialize)]
pub struct Case {
    pub geo: Geometry,
    /// files from an earlier run are already at the target paths: 0 none, 1 longer ones, 2 shorter ones, 3 same length
    /// with other bytes (a restart / a second extraction into the same directory)
    #[serde(default)]
    pub stale: u8,
}

/// distinct plain relative paths: file k is `[dX/[dY/]]fK`
fn path_for(k: usize, dirs: &[u8]) -> String {
    let mut p = String::new();
    for d in dirs {
        p.push_str(&format!("d{}/", d));
    }
    p.push_str(&format!("f{}", k));
    p
}

fn strategy(tier: Tier) -> BoxedStrategy<Case> {
    let plen = match tier {
        Tier::Quick => prop_oneof![160 => 1usize..=64, 20 => prop::sample::select(vec![100usize, 255, 256, 1000]), 1 => prop::sample::select(vec![262143usize, 262144, 262145, 300000, 524288])].boxed(),
        Tier::Thorough => {
            prop_oneof![160 => 1usize..=64, 20 => prop::sample::select(vec![100usize, 255, 256, 1000, 16383, 16384, 16385]), 1 => prop::sample::select(vec![65536usize, 262143, 262144, 262145, 300000, 524288, 1048577])].boxed()
        }
    };
    (plen, any::<bool>(), any::<u64>())
        .prop_flat_map(|(pl, multi, seed)| {
            // keep the very large geometries small in file count
            let nfiles = if multi { if pl > 100_000 { 0usize..=3 } else { 0usize..=8 } } else { 1usize..=1 };
            let flen = prop_oneof![
                2 => Just(0usize),
                4 => 0..=3 * pl,
                2 => 1..=pl,
                4 => 1..=std::cmp::max(1, pl / 3),
                1 => Just(pl),
                1 => Just(2 * pl),
            ];
            (Just(pl), Just(multi), Just(seed), vec((flen, vec(0u8..3, 0..3)), nfiles))
        })
        .prop_map(|(pl, multi, seed, fl)| {
            // a fifth of the multi-file layouts: files of one directory that share a stem and differ only in the
            // extension, temporary-looking extensions among them (a.part next to a.txt)
            const EXTS: [&str; 6] = ["part", "txt", "tmp", "partial", "bak", "new"];
            let stems = multi && seed % 5 == 0;
            let files: Vec<(String, usize)> = fl
                .iter()
                .enumerate()
                .map(|(k, (l, dirs))| if stems { (format!("s{}.{}", k / 3, EXTS[(k + (seed >> 8) as usize) % 6]), *l) } else { (path_for(k, dirs), *l) })
                .collect();
            let name = if multi { "out".to_string() } else { files[0].0.clone() };
            let stale = if seed % 4 == 0 { 1 + ((seed >> 8) % 3) as u8 } else { 0 };
            Case { geo: Geometry { piece_len: pl, files, multi, name, content_seed: seed }, stale }
        })
        .boxed()
}

pub fn classify(geo: &Geometry, o: &mut Outcome) {
    let mut pos = 0usize;
    let pl = geo.piece_len;
    for (_, l) in &geo.files {
        let (s, e) = (pos, pos + l);
        let inside = *l > 0 && s % pl != 0 && s / pl == (e - 1) / pl;
        let crosses = *l > 0 && s / pl != (e - 1) / pl;
        o.class_if(inside, "file-inside-one-piece-offset>0");
        o.class_if(crosses, "file-crosses-piece-boundary");
        o.class_if(*l == 0, "zero-length-file");
        o.class_if(*l > 0 && e % pl == 0, "file-ends-on-boundary");
        pos = e;
    }
    o.class_if(geo.multi, "multi-file-form");
    o.class_if(geo.files.len() >= 2 && geo.files.iter().any(|f| f.0.ends_with(".part") || f.0.ends_with(".tmp")), "same-stem-files-with-temporary-looking-extensions");
    o.class_if(geo.piece_len > 262144, "piece-length>256KiB");
    o.class_if(geo.total() == 0, "empty-content");
    o.nontrivial = o.classes.iter().any(|c| {
        *c == "file-inside-one-piece-offset>0" || *c == "file-crosses-piece-boundary" || *c == "zero-length-file"
    });
}

pub fn check(case: &Case) -> Outcome {
    let mut o = Outcome::new();
    let geo = &case.geo;
    classify(geo, &mut o);
    let t = Torrent::new(geo.clone());
    let m = match catch(|| t.metainfo()) {
        Ok(Ok(m)) => m,
        Ok(Err(e)) => {
            o.fail("consistent-torrent-rejected", format!("Metainfo::from_bencode rejected a consistent torrent: {}", e));
            return o;
        }
        Err(p) => {
            o.fail(panic_signature(&p), format!("from_bencode panicked: {}", p));
            return o;
        }
    };
    // (a) partition
    let r = catch(|| {
        let n = m.pieces_num();
        let lens: Vec<usize> = (0..n).map(|i| m.piece_length(i)).collect();
        (n, lens, m.total_length())
    });
    match r {
        Ok((n, lens, total)) => {
            if n != geo.pieces_num() {
                o.fail("pieces-num", format!("pieces_num {} != {}", n, geo.pieces_num()));
            }
            if total as usize != geo.total() {
                o.fail("total-length", format!("total_length {} != {}", total, geo.total()));
            }
            let want: Vec<usize> = (0..geo.pieces_num()).map(|i| geo.piece_length(i)).collect();
            if lens != want {
                o.fail("piece-length-partition", format!("piece lengths {:?}, reference {:?} (piece length {}, total {})", lens, want, geo.piece_len, geo.total()));
            }
        }
        Err(p) => {
            o.fail(panic_signature(&p), format!("accessor panicked: {}", p));
            return o;
        }
    }
    // (b) extraction
    let cwd = fresh_cwd();
    t.write_piece_files().expect("write piece files");
    if case.stale > 0 {
        o.class("files-of-an-earlier-run-at-the-target-paths");
        for (path, _start, len) in t.file_spans() {
            let target = if geo.multi { format!("{}/{}", geo.name, path) } else { path.clone() };
            let full = cwd.join(&target);
            if let Some(parent) = full.parent() {
                let _ = std::fs::create_dir_all(parent);
            }
            let old_len = match case.stale {
                1 => len + 1 + (len % 7) * 11,
                2 => len / 2,
                _ => len,
            };
            let _ = std::fs::write(&full, vec![0xA5u8; old_len]);
        }
    }
    let before: Vec<String> = rt::list_tree(&cwd).into_iter().map(|(p, _)| p).collect();
    match catch(|| rt::run_extractor(&m)) {
        Err(p) => {
            o.fail(panic_signature(&p), format!("extractor panicked: {}", p));
            return o;
        }
        Ok(Err(e)) => {
            o.fail("extractor-fails-on-consistent-torrent", format!("extractor reported Fail({}) for {:?}", e, geo));
            return o;
        }
        Ok(Ok(())) => {}
    }
    let mut expected_files: Vec<String> = vec![];
    for (path, start, len) in t.file_spans() {
        // (a directory-form torrent with a single entry is still a directory: BEP3, and what rdest does since the
        // repair recorded as F4b)
        let candidates: Vec<String> = if geo.multi {
            vec![format!("{}/{}", geo.name, path)]
        } else {
            vec![path.clone()]
        };
        let found = candidates.iter().find(|c| cwd.join(c).is_file());
        match found {
            None => o.fail("file-missing", format!("listed file {} was not created ({:?})", path, geo)),
            Some(c) => {
                expected_files.push(c.clone());
                let data = std::fs::read(cwd.join(c)).unwrap_or_default();
                let want = &t.content[start..start + len];
                if data.len() != len {
                    o.fail(
                        "file-wrong-length",
                        format!("file {} has {} bytes, declared {} (content offset {}, piece length {}) {:?}", path, data.len(), len, start, geo.piece_len, geo.files),
                    );
                } else if data != want {
                    let at = data.iter().zip(want.iter()).position(|(a, b)| a != b).unwrap_or(0);
                    o.fail(
                        "file-wrong-content",
                        format!("file {} differs from content[{}..{}] first at byte {} (piece length {}) {:?}", path, start, start + len, at, geo.piece_len, geo.files),
                    );
                }
            }
        }
    }
    let after = rt::list_tree(&cwd);
    for (p, sz) in &after {
        if sz.is_some() && !before.contains(p) && !expected_files.contains(p) {
            o.fail("unexpected-file-created", format!("extraction created unlisted file {}", p));
        }
    }
    // piece files untouched
    for i in 0..geo.pieces_num() {
        let d = std::fs::read(cwd.join(t.piece_file_name(i))).unwrap_or_default();
        if d != t.piece(i) {
            o.fail("piece-file-modified", format!("piece file {} changed during extraction", i));
        }
    }
    o
}

fn run(ctx: &WorkerCtx) -> WorkerReport {
    run_proptest(ctx, "layouts", strategy(ctx.tier), check)
}

fn run_exhaustive(ctx: &WorkerCtx) -> WorkerReport {
    let mut rep = WorkerReport { sub: "exhaustive".into(), ..Default::default() };
    let mut n = 0u64;
    let mut layouts: Vec<(usize, Vec<usize>, bool)> = vec![];
    for pl in 1..=4usize {
        for nf in 0..=3usize {
            let combos = 7usize.pow(nf as u32);
            for c in 0..combos {
                let mut x = c;
                let mut lens = vec![];
                for _ in 0..nf {
                    lens.push(x % 7);
                    x /= 7;
                }
                layouts.push((pl, lens.clone(), true));
                if nf == 1 {
                    layouts.push((pl, lens, false));
                }
            }
        }
    }
    for (k, (pl, lens, multi)) in layouts.iter().enumerate() {
        if k % ctx.n != ctx.idx {
            continue;
        }
        let files: Vec<(String, usize)> = lens.iter().enumerate().map(|(i, l)| (path_for(i, &[]), *l)).collect();
        let name = if *multi { "out".to_string() } else { files[0].0.clone() };
        let case = Case { geo: Geometry { piece_len: *pl, files, multi: *multi, name, content_seed: ctx.seed ^ (k as u64) }, stale: (k % 4) as u8 };
        let out = check(&case);
        rep.evaluations += 1;
        n += 1;
        if out.nontrivial {
            rep.distinct_by_construction += 1;
        }
        for c in &out.classes {
            *rep.classes.entry(c.to_string()).or_insert(0) += 1;
        }
        if rep.samples.len() < 2 && out.nontrivial {
            rep.samples.push(serde_json::to_value(&case).unwrap());
        }
        for f in &out.fails {
            if ctx.known.contains(&f.signature) {
                *rep.known_hits.entry(f.signature.clone()).or_insert(0) += 1;
            } else if rep.failure.is_none() {
                rep.failure = Some(FailRec {
                    sub: "layouts".into(),
                    signature: f.signature.clone(),
                    detail: f.detail.clone(),
                    case: serde_json::to_value(&case).unwrap(),
                });
            }
        }
        if rep.failure.is_some() {
            break;
        }
    }
    let _ = n;
    rep.exhaustive = Some("all layouts with piece length 1..=4, 0..=3 files, each file length 0..=6 (multi-file form; single-file form for 1 file)".into());
    rep
}

pub fn def() -> PropDef {
    PropDef {
        id: "C03",
        rule: "(a fifth of the multi-file layouts: files of one directory sharing a stem and differing only in the extension, temporary-looking ones - part, tmp, partial, bak, new - among them) (in a quarter of the layouts files of an earlier run - longer, shorter or of equal length - are already at the target paths) a generated torrent geometry (piece length 1..64 plus larger values, 0-8 files with lengths 0..3x piece length at distinct nested relative paths, single- and multi-file form, seeded random content) whose piece files are written by the harness; the real Extractor runs in a private directory. Oracle: piece_length(i) partitions total_length exactly as the reference geometry; after Done every listed file exists with exactly content[offset..offset+len], nothing unlisted is created, piece files are untouched; Fail on a consistent torrent is a violation. Non-trivial = some file lies strictly inside one piece at a non-zero offset, or crosses a piece boundary, or has length 0; distinct by hash of the case. Sub exhaustive enumerates all layouts with piece length 1..4, <=3 files, lengths 0..6.",
        assumptions: &[
            "`path` of a files entry is a byte string (the form rdest's metainfo reader accepts), not a BEP3 path list",
            "for a files list with exactly one entry either ./name/path or ./path is accepted here; the location question belongs to C04",
        ],
        subs: vec![
            Sub { name: "exhaustive", cases: |_| 1, run: run_exhaustive, replay: |v| replay_case::<Case>(v, check), min_class: &[] },
            Sub {
                name: "layouts",
                cases: |t| t.pick(20_000, 400_000),
                run,
                replay: |v| replay_case::<Case>(v, check),
                min_class: &[("file-inside-one-piece-offset>0", 0.1407), ("file-crosses-piece-boundary", 0.2), ("zero-length-file", 0.1448), ("files-of-an-earlier-run-at-the-target-paths", 0.1), ("same-stem-files-with-temporary-looking-extensions", 0.025)],
            },
        ],
    }
}
