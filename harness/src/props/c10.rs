//! C10 — Block requests tile each assigned piece exactly once.

use crate::engine::*;
use crate::gen::idx;
use crate::refmodel::geometry::*;
use crate::refmodel::wire::{self, RFrame};
use crate::swarm::{self, PeerView, World};
use proptest::collection::vec;
use proptest::prelude::*;
use rdest::verif::Status;
use serde::{Deserialize, Serialize};
use std::collections::BTreeSet;

#[derive(Clone, Debug, Serialize, Deserialize)]
pub enum Op {
    /// answer the k-th outstanding request with the right bytes
    Answer(u16),
    /// answer all outstanding requests in the given rotation
    AnswerAll(u8),
    /// re-send a block that was already answered
    Duplicate(u16),
    /// let time pass without answering
    Withhold,
    /// the peer stays silent for 25 s (two and a half of the client's rate windows) with blocks outstanding
    WithholdLong,
    Choke,
    /// choke, but answers to the requests already received are still sent afterwards (in flight)
    ChokeKeep,
    Unchoke,
    /// announce a piece not advertised so far
    Have(u16),
    /// the peer asks the client for a block (the client has nothing or chokes the peer: the manager ignores it)
    PeerRequests(u8),
    /// other traffic that must not disturb the download
    PeerInterested(bool),
    /// every outstanding request is answered and a trailing non-block message (none / keep-alive / unknown id / have)
    /// follows, all written at once: the client finds the whole burst in one read
    Burst(u8),
}

#[derive(Clone, Debug, Serialize, Deserialize)]
pub struct Case {
    pub piece_len: usize,
    pub pieces: usize,
    /// length of the last piece (1..=piece_len)
    pub last_len: usize,
    pub advertised: Vec<bool>,
    pub ops: Vec<Op>,
    pub seed: u64,
}

fn strategy(tier: Tier) -> BoxedStrategy<Case> {
    let pl = match tier {
        Tier::Quick => prop::sample::select(vec![1usize, 5, 16383, 16384, 16385, 32768, 32769, 49153]),
        Tier::Thorough => prop::sample::select(vec![1usize, 5, 16383, 16384, 16385, 32768, 32769, 49153, 65536, 40000, 20000]),
    };
    (pl, 1usize..=4)
        .prop_flat_map(|(pl, n)| {
            let last = prop_oneof![2 => Just(pl), 2 => 1..=pl, 1 => Just(((pl - 1) % 16384) + 1), 1 => Just(1usize)];
            let op = prop_oneof![
                8 => any::<u16>().prop_map(Op::Answer),
                3 => any::<u8>().prop_map(Op::AnswerAll),
                2 => any::<u16>().prop_map(Op::Duplicate),
                1 => Just(Op::Withhold),
                1 => Just(Op::WithholdLong),
                1 => Just(Op::Choke),
                1 => Just(Op::ChokeKeep),
                2 => Just(Op::Unchoke),
                1 => any::<u16>().prop_map(Op::Have),
                2 => any::<u8>().prop_map(Op::PeerRequests),
                2 => any::<u8>().prop_map(Op::Burst),
                1 => any::<bool>().prop_map(Op::PeerInterested),
            ];
            (Just(pl), Just(n), last, vec(prop::bool::weighted(0.8), n..=n), vec(op, 0..40), any::<u64>())
        })
        .prop_map(|(piece_len, pieces, last_len, advertised, ops, seed)| Case { piece_len, pieces, last_len, advertised, ops, seed })
        .boxed()
}

/// Decoder for the coverage-guided campaign (fuzz target fz_hist).
pub fn case_from_bytes(data: &[u8]) -> Case {
    let mut r = crate::gen::ByteReader::new(data);
    let piece_len = r.pick(&[1usize, 5, 16383, 16384, 16385, 32768, 32769, 49153, 40000, 20000]);
    let pieces = 1 + r.below(4);
    let last_len = 1 + (r.u16() as usize) % piece_len;
    let advertised: Vec<bool> = (0..pieces).map(|_| r.below(5) != 0).collect();
    let seed = r.u16() as u64;
    let mut ops = vec![];
    while !r.done() && ops.len() < 60 {
        let op = match r.below(20) {
            0..=5 => Op::Answer(r.ix()),
            6 | 7 => Op::AnswerAll(r.u8()),
            8 | 9 => Op::Duplicate(r.ix()),
            10 => Op::Withhold,
            11 => Op::WithholdLong,
            12 => Op::Choke,
            13 => Op::ChokeKeep,
            14 | 15 => Op::Unchoke,
            16 => Op::Have(r.ix()),
            17 => Op::PeerRequests(r.u8()),
            18 => Op::Burst(r.u8()),
            _ => Op::PeerInterested(r.bool()),
        };
        ops.push(op);
    }
    Case { piece_len, pieces, last_len, advertised, ops, seed }
}

struct Epoch {
    piece: u32,
    seen: BTreeSet<(u32, u32)>,
    delivered: BTreeSet<(u32, u32)>,
}

struct Sim {
    c: Case,
    t: Torrent,
    geo: Geometry,
    conn: usize,
    addr: String,
    advertised: Vec<bool>,
    view: PeerView,
    epoch: Option<Epoch>,
    cmds_seen: usize,
    assignments_unused: usize,
    /// which manager command produced each assignment not yet matched with requests
    assign_kinds: std::collections::VecDeque<&'static str>,
    /// the peer has choked the client since the current assignment's first request
    choked_since_epoch: bool,
    model_complete: BTreeSet<u32>,
    answered: Vec<(u32, u32, u32)>,
    peer_chokes_client: bool,
    fails: Vec<(String, String)>,
    classes: Vec<&'static str>,
    step: usize,
}

impl Sim {
    /// Barrier, then fold everything the client did into the model and check it. Returns the number of new
    /// requests that continue the current epoch.
    async fn observe(&mut self, w: &mut World, what: &str) -> usize {
        w.settle().await;
        if w.fatal().is_some() {
            return 0;
        }
        for cr in &w.cmds[self.cmds_seen..] {
            if cr.addr == self.addr && matches!(cr.kind, "RecvUnchoke" | "RecvHave" | "PieceDone" | "PieceCancel") && cr.peer_piece_after.is_some() {
                if cr.kind != "RecvHave" || cr.peer_piece_before.is_none() {
                    self.assignments_unused += 1;
                    self.assign_kinds.push_back(cr.kind);
                }
            }
        }
        self.cmds_seen = w.cmds.len();
        let frames = w.take_frames(self.conn);
        self.view.absorb(&frames);
        let mut same_epoch = 0usize;
        for f in &frames {
            if let RFrame::Request(p, b, l) = f {
                if *p as usize >= self.c.pieces {
                    self.fail("request-for-nonexistent-piece", format!("step {} {}: Request({},{},{})", self.step, what, p, b, l));
                    return same_epoch;
                }
                let new_epoch = match &self.epoch {
                    None => true,
                    Some(e) => e.piece != *p || e.seen.contains(&(*b, *l)),
                };
                if new_epoch {
                    if self.assignments_unused == 0 {
                        let ep = self.epoch.as_ref().map(|e| e.piece);
                        self.fail(
                            "request-repeated-or-switched-without-reassignment",
                            format!("step {} {}: Request({},{},{}) repeats a block or names another piece although the manager made no new assignment (current piece {:?})", self.step, what, p, b, l, ep),
                        );
                        return same_epoch;
                    }
                    self.assignments_unused -= 1;
                    // an assignment the peer did not cause (no Unchoke after a Choke, no finished or cancelled piece)
                    // in the middle of a fetch: the piece under way is left with a gap or its blocks are asked for again
                    let kind = self.assign_kinds.pop_front().unwrap_or("?");
                    if let Some(e) = &self.epoch {
                        let til = wire::tiling(self.geo.piece_length(e.piece as usize));
                        if kind == "RecvUnchoke" && !self.choked_since_epoch && !e.seen.is_empty() && e.delivered.len() < til.len() {
                            let ep = e.piece;
                            let (seen, delivered) = (e.seen.len(), e.delivered.len());
                            self.fail(
                                "piece-under-way-abandoned-or-requested-again",
                                format!("step {} {}: Request({},{},{}) starts a new assignment although piece {} was under way ({} of {} blocks requested, {} delivered) and the peer never choked the client", self.step, what, p, b, l, ep, seen, til.len(), delivered),
                            );
                            return same_epoch;
                        }
                    }
                    self.choked_since_epoch = false;
                    self.epoch = Some(Epoch { piece: *p, seen: BTreeSet::new(), delivered: BTreeSet::new() });
                } else {
                    same_epoch += 1;
                }
                let plen = self.geo.piece_length(*p as usize);
                let til = wire::tiling(plen);
                if *l as usize > 16384 {
                    self.fail("request-longer-than-16KiB", format!("step {} {}: Request({},{},{})", self.step, what, p, b, l));
                    return same_epoch;
                }
                if !til.contains(&(*b, *l)) {
                    self.fail(
                        "request-not-in-tiling",
                        format!("step {} {}: Request({},{},{}) is not a block of the tiling {:?} of a {}-byte piece", self.step, what, p, b, l, til, plen),
                    );
                    return same_epoch;
                }
                if !self.advertised[*p as usize] {
                    self.fail("request-for-unadvertised-piece", format!("step {} {}: Request({},{},{})", self.step, what, p, b, l));
                    return same_epoch;
                }
                self.epoch.as_mut().unwrap().seen.insert((*b, *l));
            }
        }
        // completion equivalence
        let snap = w.snapshot();
        for i in 0..self.c.pieces {
            let have = snap.statuses[i] == Status::Have;
            let file = std::path::Path::new(&self.t.piece_file_name(i)).exists();
            let model = self.model_complete.contains(&(i as u32));
            // pieces with identical content share one file name
            let file_explained = self.model_complete.iter().any(|j| self.t.hashes[*j as usize] == self.t.hashes[i]);
            if (have && !model) || (file && !file_explained) {
                self.fail(
                    "piece-completed-early",
                    format!("step {} {}: piece {} is Have={} file={} although not every block of its tiling was delivered in one assignment", self.step, what, i, have, file),
                );
                return same_epoch;
            }
            if model && !(have && file) {
                self.fail(
                    "piece-not-completed-when-last-block-arrived",
                    format!("step {} {}: all blocks of piece {} delivered but Have={} file={}", self.step, what, i, have, file),
                );
                return same_epoch;
            }
        }
        same_epoch
    }

    fn fail(&mut self, sig: &str, detail: String) {
        self.fails.push((sig.to_string(), detail));
    }

    /// Send one block, then observe. The model is exact because the client was quiescent before the block was sent:
    /// it accepts the block iff it has requested it in the current assignment and not yet received it.
    async fn deliver(&mut self, w: &mut World, p: u32, b: u32, l: u32, check_progress: bool) {
        let data = self.t.piece(p as usize)[b as usize..(b + l) as usize].to_vec();
        let (accepted, remaining) = self.model_accept(p, b, l);
        w.send_frame(self.conn, &RFrame::Piece(p, b, data));
        self.answered.push((p, b, l));
        let same_epoch = self.observe(w, "after a block").await;
        if check_progress && accepted && remaining > 0 && self.fails.is_empty() && w.fatal().is_none() && w.handler_alive(self.conn) {
            self.classes.push("progress-rule-checked");
            if same_epoch != 1 {
                self.fail(
                    "accepted-block-not-followed-by-one-request",
                    format!("step {}: an accepted block ({},{},{}) with {} blocks still unrequested was followed by {} new requests", self.step, p, b, l, remaining, same_epoch),
                );
            }
        }
    }

    /// The acceptance model for one arriving block: (accepted, blocks of the current tiling not yet requested).
    fn model_accept(&mut self, p: u32, b: u32, l: u32) -> (bool, usize) {
        let mut accepted = false;
        let mut remaining = 0usize;
        if let Some(e) = self.epoch.as_mut() {
            let til: BTreeSet<(u32, u32)> = wire::tiling(self.geo.piece_length(e.piece as usize)).into_iter().collect();
            remaining = til.len() - e.seen.len();
            if e.piece == p && e.seen.contains(&(b, l)) && !e.delivered.contains(&(b, l)) {
                e.delivered.insert((b, l));
                accepted = true;
                if e.delivered == til && self.model_complete.insert(e.piece) {
                    self.classes.push("epoch-completed");
                }
            }
        }
        if !accepted {
            self.classes.push("duplicate-or-stale-answer");
        }
        (accepted, remaining)
    }
}

pub fn check(c: &Case) -> Outcome {
    let mut o = Outcome::new();
    fresh_cwd();
    let total = c.piece_len * (c.pieces - 1) + c.last_len.min(c.piece_len).max(1);
    let geo = Geometry::single(c.piece_len, total, c.seed);
    let t = Torrent::new(geo.clone());
    let ih = t.info_hash();
    o.class_if(c.piece_len % 16384 != 0, "piece-length-not-multiple-of-16KiB");
    o.class_if(geo.piece_length(c.pieces - 1) != c.piece_len, "shorter-last-piece");
    o.class_if(c.piece_len > 16384, "multi-block-piece");
    let c2 = c.clone();
    let t2 = t.clone();
    let res = swarm::run(c.seed, &t, move |w: &mut World| {
        Box::pin(async move {
            let conn = w.connect(None);
            let mut advertised = c2.advertised.clone();
            if !advertised.iter().any(|b| *b) {
                advertised[0] = true;
            }
            let mut sim = Sim {
                addr: w.conns[conn].addr.clone(),
                geo: t2.geo.clone(),
                c: c2,
                t: t2,
                conn,
                advertised,
                view: PeerView::new(),
                epoch: None,
                cmds_seen: 0,
                assignments_unused: 0,
                assign_kinds: Default::default(),
                choked_since_epoch: false,
                model_complete: BTreeSet::new(),
                answered: vec![],
                peer_chokes_client: true,
                fails: vec![],
                classes: vec![],
                step: 0,
            };
            w.send_frame(conn, &RFrame::handshake(ih, [b'q'; 20]));
            w.send_frame(conn, &RFrame::Bitfield(wire::bits_to_bytes(&sim.advertised)));
            sim.observe(w, "after handshake").await;
            let mut out_of_order = false;
            let mut ops = vec![Op::Unchoke];
            ops.extend(sim.c.ops.iter().cloned());
            for _ in 0..12 {
                ops.push(Op::AnswerAll(0));
            }
            for (step, op) in ops.iter().enumerate() {
                if !w.handler_alive(conn) || w.fatal().is_some() || !sim.fails.is_empty() {
                    break;
                }
                sim.step = step;
                match op {
                    Op::Answer(k) => {
                        if !sim.view.outstanding.is_empty() {
                            let i = idx(*k, sim.view.outstanding.len());
                            if i != 0 {
                                out_of_order = true;
                            }
                            let (p, b, l) = sim.view.outstanding.remove(i).unwrap();
                            sim.deliver(w, p, b, l, true).await;
                        }
                    }
                    Op::AnswerAll(rot) => {
                        let mut reqs: Vec<(u32, u32, u32)> = sim.view.outstanding.drain(..).collect();
                        if !reqs.is_empty() {
                            let r = *rot as usize % reqs.len();
                            if r != 0 {
                                out_of_order = true;
                            }
                            reqs.rotate_left(r);
                        }
                        for (p, b, l) in reqs {
                            if !w.handler_alive(conn) || !sim.fails.is_empty() {
                                break;
                            }
                            sim.deliver(w, p, b, l, true).await;
                        }
                    }
                    Op::Burst(tr) => {
                        let reqs: Vec<(u32, u32, u32)> = sim.view.outstanding.drain(..).collect();
                        if reqs.is_empty() {
                            continue;
                        }
                        // The acceptance model is exact for a burst only if it does not depend on the requests the
                        // client sends while it works through the burst: every answered request belongs to the current
                        // assignment, is still unanswered, and occurs once. Otherwise deliver one block per barrier.
                        let exact = match &sim.epoch {
                            Some(e) => {
                                let set: BTreeSet<(u32, u32, u32)> = reqs.iter().copied().collect();
                                set.len() == reqs.len() && reqs.iter().all(|(p, b, l)| *p == e.piece && e.seen.contains(&(*b, *l)) && !e.delivered.contains(&(*b, *l)))
                            }
                            None => false,
                        };
                        if !exact {
                            for (p, b, l) in reqs {
                                if !w.handler_alive(conn) || !sim.fails.is_empty() {
                                    break;
                                }
                                sim.deliver(w, p, b, l, true).await;
                            }
                            continue;
                        }
                        let mut bytes = vec![];
                        let mut acc = 0usize;
                        let mut unrequested = None;
                        for (p, b, l) in &reqs {
                            let (a, rem) = sim.model_accept(*p, *b, *l);
                            if unrequested.is_none() {
                                unrequested = Some(rem);
                            }
                            if a {
                                acc += 1;
                            }
                            let data = sim.t.piece(*p as usize)[*b as usize..(*b + *l) as usize].to_vec();
                            bytes.extend_from_slice(&wire::encode(&RFrame::Piece(*p, *b, data)));
                            sim.answered.push((*p, *b, *l));
                        }
                        match tr % 4 {
                            0 => {}
                            1 => bytes.extend_from_slice(&wire::encode(&RFrame::KeepAlive)),
                            2 => bytes.extend_from_slice(&wire::encode(&RFrame::Unknown(20, vec![1, 2, 3]))),
                            _ => {
                                bytes.extend_from_slice(&wire::encode(&RFrame::Have(0)));
                                sim.advertised[0] = true;
                            }
                        }
                        sim.classes.push("burst-of-answers-with-trailer-in-one-write");
                        w.send(conn, &bytes);
                        let same = sim.observe(w, "after a burst").await;
                        let unrequested = unrequested.unwrap_or(0);
                        if acc > 0 && unrequested >= acc && sim.fails.is_empty() && w.fatal().is_none() && w.handler_alive(conn) {
                            sim.classes.push("progress-rule-checked");
                            if same != acc {
                                sim.fail(
                                    "accepted-block-not-followed-by-one-request",
                                    format!("step {}: a burst of {} accepted blocks (trailer kind {}) with {} blocks still unrequested was followed by {} new requests", sim.step, acc, tr % 4, unrequested, same),
                                );
                            }
                        }
                    }
                    Op::Duplicate(k) => {
                        if !sim.answered.is_empty() {
                            let (p, b, l) = sim.answered[idx(*k, sim.answered.len())];
                            if !sim.view.outstanding.contains(&(p, b, l)) {
                                sim.classes.push("duplicate-sent");
                                sim.deliver(w, p, b, l, false).await;
                            }
                        }
                    }
                    Op::Withhold => {
                        sim.classes.push("withhold");
                        w.advance_by(std::time::Duration::from_secs(3)).await;
                        sim.observe(w, "after withholding").await;
                    }
                    Op::WithholdLong => {
                        sim.classes.push("withhold");
                        if !sim.view.outstanding.is_empty() {
                            sim.classes.push("silent-for-25s-with-blocks-outstanding");
                        }
                        for _ in 0..5 {
                            w.advance_by(std::time::Duration::from_secs(5)).await;
                            sim.observe(w, "after 25 s of silence").await;
                        }
                    }
                    Op::Choke => {
                        w.send_frame(conn, &RFrame::Choke);
                        sim.peer_chokes_client = true;
                        sim.choked_since_epoch = true;
                        // a choking peer drops the requests it has queued
                        sim.view.outstanding.clear();
                        sim.classes.push("choke");
                        sim.observe(w, "after choke").await;
                    }
                    Op::ChokeKeep => {
                        w.send_frame(conn, &RFrame::Choke);
                        sim.peer_chokes_client = true;
                        sim.choked_since_epoch = true;
                        sim.classes.push("choke");
                        sim.classes.push("choke-with-blocks-in-flight");
                        sim.observe(w, "after choke").await;
                    }
                    Op::Unchoke => {
                        w.send_frame(conn, &RFrame::Unchoke);
                        sim.peer_chokes_client = false;
                        sim.observe(w, "after unchoke").await;
                    }
                    Op::PeerRequests(i) => {
                        let i = *i as usize % (sim.c.pieces + 1); // also one index beyond the piece count
                        w.send_frame(conn, &RFrame::Request(i as u32, 0, 1));
                        sim.classes.push("peer-sends-own-request");
                        sim.observe(w, "after the peer's own request").await;
                    }
                    Op::PeerInterested(yes) => {
                        w.send_frame(conn, &if *yes { RFrame::Interested } else { RFrame::NotInterested });
                        sim.observe(w, "after interested/not interested").await;
                    }
                    Op::Have(k) => {
                        let missing: Vec<usize> = (0..sim.c.pieces).filter(|i| !sim.advertised[*i]).collect();
                        if !missing.is_empty() {
                            let i = missing[idx(*k, missing.len())];
                            sim.advertised[i] = true;
                            w.send_frame(conn, &RFrame::Have(i as u32));
                            sim.classes.push("have");
                            sim.observe(w, "after have").await;
                        }
                    }
                }
            }
            if out_of_order {
                sim.classes.push("out-of-order-answer");
            }
            (sim.fails, sim.classes)
        })
    });
    match res {
        Ok((fails, classes)) => {
            for (s, d) in fails {
                o.fail(s, d);
            }
            for cl in classes {
                o.class(cl);
            }
        }
        Err(p) => o.fail(panic_signature(&p), format!("runtime panic: {}", p)),
    }
    o.nontrivial = o.classes.contains(&"piece-length-not-multiple-of-16KiB") || o.classes.contains(&"out-of-order-answer") || o.classes.contains(&"duplicate-or-stale-answer");
    o
}

pub fn def() -> PropDef {
    PropDef {
        id: "C10",
        rule: "one honest-content remote peer on the swarm runtime (real connection task + real manager): piece length from {1,5,16383,16384,16385,32768,32769,49153 (+65536,40000,20000 thorough)}, 1-4 pieces, generated shorter last piece, partial bitfield with later Haves; a history of up to 40 ops {burst: all outstanding answers plus a trailing keep-alive / unknown-id message / have in one write (asserted when the acceptance model is independent of the requests the client sends meanwhile), answer k-th outstanding request, answer all (rotated), duplicate an answered block, withhold, choke, unchoke, have}. Oracle over the Request frames the client writes, grouped into assignment epochs (a repeated block or a different piece index is only allowed after the manager made a new assignment): every request is a block of the reference tiling of that piece's length, <= 16 KiB, never repeated within an epoch, for a piece the peer advertised; a new assignment the peer did not cause (no Unchoke after a Choke, no finished or cancelled piece) never starts while a piece is under way - also not after 25 s of silence with blocks outstanding (op WithholdLong); an accepted block while blocks remain unrequested is followed by exactly one further request (also for blocks that were in flight when the peer choked the client: the statement has no choke exception); a piece is Have with its file on disk exactly from the barrier at which every block of its tiling has been delivered within one assignment, never before. Non-trivial = piece length not a multiple of 16 KiB, or an out-of-order or duplicate answer; distinct by hash of the case.",
        assumptions: &["the order in which blocks of a piece are requested is not asserted (the property speaks of coverage, not order)"],
        subs: vec![Sub {
            name: "tiling",
            cases: |t| t.pick(25_000, 300_000),
            run: |ctx| run_proptest(ctx, "tiling", strategy(ctx.tier), check),
            replay: |v| replay_case::<Case>(v, check),
            min_class: &[("piece-length-not-multiple-of-16KiB", 0.3812), ("shorter-last-piece", 0.2603), ("epoch-completed", 0.487), ("out-of-order-answer", 0.1492), ("duplicate-or-stale-answer", 0.1), ("progress-rule-checked", 0.0982), ("choke", 0.1029), ("choke-with-blocks-in-flight", 0.05), ("peer-sends-own-request", 0.2), ("silent-for-25s-with-blocks-outstanding", 0.08), ("burst-of-answers-with-trailer-in-one-write", 0.12)],
        }],
    }
}
