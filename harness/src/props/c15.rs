//! C15 — Bencode encode/decode are mutually inverse and canonical.

use crate::conv::*;
use crate::engine::*;
use crate::gen::bencode::*;
use crate::refmodel::bencode as rb;
use crate::refmodel::bencode::RVal;
use proptest::collection::vec;
use proptest::prelude::*;
use rdest::BDecoder;
use serde::{Deserialize, Serialize};

#[derive(Clone, Debug, Serialize, Deserialize)]
pub struct Case {
    pub vals: Vec<RVal>,
}

fn strategy(tier: Tier) -> BoxedStrategy<Case> {
    let max_str = tier.pick(64, 200);
    vec(rval_unique(max_str), 1..4).prop_map(|vals| Case { vals }).boxed()
}

pub fn check(case: &Case) -> Outcome {
    let mut o = Outcome::new();
    let depth = case.vals.iter().map(|v| v.depth()).max().unwrap_or(0);
    let delim = case.vals.iter().any(|v| v.has_delim_str());
    o.nontrivial = depth >= 2 || delim;
    o.class_if(depth >= 2, "depth>=2");
    o.class_if(delim, "delimiter-in-string");
    o.class_if(case.vals.len() >= 2, "concatenation");
    fn max_str(v: &RVal) -> usize {
        match v {
            RVal::Int(_) => 0,
            RVal::Str(s) => s.len(),
            RVal::List(l) => l.iter().map(max_str).max().unwrap_or(0),
            RVal::Dict(d) => d.iter().map(|(k, v)| k.len().max(max_str(v))).max().unwrap_or(0),
        }
    }
    let ms = case.vals.iter().map(max_str).max().unwrap_or(0);
    o.class_if(ms >= 1000, "string>=1000-bytes");
    o.class_if(ms >= 9_999_999, "string>=9999999-bytes");

    let bvals: Vec<_> = case.vals.iter().map(to_bvalue).collect();

    // (2) encoder output equals the reference canonical writer, value by value and concatenated
    let enc = match catch(|| rdest_encode(&bvals)) {
        Ok(e) => e,
        Err(p) => {
            o.fail(panic_signature(&p), format!("encoder panicked: {}", p));
            return o;
        }
    };
    let mut reference = vec![];
    for v in &case.vals {
        reference.extend_from_slice(&rb::encode_canonical(v));
    }
    if enc != reference {
        o.fail(
            "encoder-not-canonical",
            format!("encoder wrote {} but canonical is {}", show_bytes(&enc), show_bytes(&reference)),
        );
    }

    // The decoder is a function of its input alone: damaged copies of the document (cut short inside its containers,
    // closing `e`s removed) are decoded first, in the same thread, and must not change what the intact one decodes to.
    // (documents up to 4 KiB only: removing an `e` from a longer one can turn a big delimiter-rich string into tens of
    // thousands of nested containers, which is C16's deep-nesting finding, not this property's subject)
    if enc.len() >= 2 && enc.len() <= 4096 {
        let cut_half = &enc[..enc.len() / 2];
        let cut_last = &enc[..enc.len() - 1];
        let no_e: Vec<u8> = enc.iter().copied().filter(|b| *b != b'e').collect();
        for damaged in [cut_half, cut_last, &no_e[..]] {
            let _ = catch(|| BDecoder::from_array(damaged).map(|_| ()));
        }
        o.class("damaged-copies-decoded-first");
    }

    // (1)+(4) decode(encode(v1)++encode(v2)..) == [v1, v2, ..]
    match catch(|| BDecoder::from_array(&enc)) {
        Ok(Ok(dec)) => {
            if dec != bvals {
                o.fail(
                    "roundtrip-value-mismatch",
                    format!("decode(encode(v)) != v for document {}", show_bytes(&enc)),
                );
            }
            // (3) re-encoding the decoding of a canonical document reproduces it
            if let Ok(Ok(dec2)) = catch(|| BDecoder::from_array(&reference)) {
                let re = rdest_encode(&dec2);
                if re != reference {
                    o.fail(
                        "reencode-not-identity",
                        format!("encode(decode(doc)) = {} for canonical doc {}", show_bytes(&re), show_bytes(&reference)),
                    );
                }
            } else {
                o.fail("canonical-doc-rejected", format!("decoder rejected canonical document {}", show_bytes(&reference)));
            }
        }
        Ok(Err(e)) => o.fail(
            "roundtrip-decode-error",
            format!("decoder rejected the encoder's output {}: {}", show_bytes(&enc), e),
        ),
        Err(p) => o.fail(panic_signature(&p), format!("decoder panicked on {}: {}", show_bytes(&enc), p)),
    }
    o
}

fn run(ctx: &WorkerCtx) -> WorkerReport {
    run_proptest(ctx, "roundtrip", strategy(ctx.tier), check)
}

pub fn def() -> PropDef {
    PropDef {
        id: "C15",
        rule: "cases are 1-3 generated bencode values (ints over all of i64 with edge bias, delimiter-rich byte strings, lists/dicts to depth 5, unique keys incl. prefixes of one another); checked: rdest encoder output == independent canonical writer, decode(encode)==identity also for concatenations and also right after the same thread has decoded damaged copies of the document (cut in half, last byte missing, every `e` removed: the decoder keeps no state between calls), encode(decode(canonical doc))==doc. Non-trivial = nesting depth >= 2 or a string containing a delimiter byte; distinct by hash of the case.",
        assumptions: &[
            "dictionary keys are unique in generated values (BValue::Dict is a HashMap and cannot represent duplicates)",
            "reference canonical writer in harness/src/refmodel/bencode.rs is trusted",
        ],
        subs: vec![Sub {
            name: "roundtrip",
            cases: |t| t.pick(500_000, 6_000_000),
            run,
            replay: |v| replay_case::<Case>(v, check),
            min_class: &[("depth>=2", 0.1), ("delimiter-in-string", 0.3), ("concatenation", 0.3)],
        }],
    }
}
