//! C08 — Only peers of the same torrent (and expected identity) are served.

use crate::engine::*;
use crate::net::{seed_pieces, Net};
use crate::refmodel::geometry::*;
use crate::refmodel::wire::{self, RFrame, PSTR};
use crate::swarm::{self, World, OWN_ID};
use proptest::collection::vec;
use proptest::prelude::*;
use serde::{Deserialize, Serialize};

#[derive(Clone, Debug, Serialize, Deserialize, PartialEq)]
pub enum Pstr {
    Right,
    WrongSameLen,
    WrongLen,
}

#[derive(Clone, Debug, Serialize, Deserialize, PartialEq)]
pub enum HashKind {
    Right,
    OneBitOff(u8),
    Random(u64),
    /// a different value that collides with the right one under sloppy canonicalisations: two adjacent bytes re-split
    /// on a nibble boundary (0x0A 0xBC -> 0xAB 0x0C), where the right hash allows it; else one byte changed by case bit
    Lookalike(u8),
}

#[derive(Clone, Debug, Serialize, Deserialize)]
pub struct Hs {
    pub pstr: Pstr,
    pub hash: HashKind,
    /// true = the id the client expects (outgoing) / any id (incoming)
    pub expected_id: bool,
}

#[derive(Clone, Debug, Serialize, Deserialize)]
pub enum Msg {
    Handshake(Hs),
    Bitfield,
    Interested,
    Unchoke,
    Have(u8),
    /// request for an owned piece
    Request(u8),
    KeepAlive,
    /// not a message on the connection under test: another, well-behaved peer completes this many pieces meanwhile
    /// (the manager broadcasts a Have for each to every connection task)
    OthersComplete(u8),
    /// not a message: 21 virtual seconds pass (connection tasks report their rates), then the manager's real choke
    /// rotation runs (regular slots and, every third round, a fresh optimistic unchoke)
    Rotate,
}

#[derive(Clone, Debug, Serialize, Deserialize)]
pub struct Case {
    /// a torrent with 140 pieces and a second, serving peer (so that many pieces can complete during the script)
    #[serde(default)]
    pub many: bool,
    pub outgoing: bool,
    pub msgs: Vec<Msg>,
    pub seed: u64,
}

fn hs_strategy() -> BoxedStrategy<Hs> {
    (
        prop_oneof![6 => Just(Pstr::Right), 1 => Just(Pstr::WrongSameLen), 1 => Just(Pstr::WrongLen)],
        prop_oneof![5 => Just(HashKind::Right), 2 => any::<u8>().prop_map(HashKind::OneBitOff), 1 => any::<u64>().prop_map(HashKind::Random), 2 => any::<u8>().prop_map(HashKind::Lookalike)],
        prop::bool::weighted(0.75),
    )
        .prop_map(|(pstr, hash, expected_id)| Hs { pstr, hash, expected_id })
        .boxed()
}

fn strategy() -> BoxedStrategy<Case> {
    let other = prop_oneof![
        2 => Just(Msg::Bitfield),
        2 => Just(Msg::Interested),
        1 => Just(Msg::Unchoke),
        1 => (0u8..4).prop_map(Msg::Have),
        4 => (0u8..4).prop_map(Msg::Request),
        1 => Just(Msg::KeepAlive),
        1 => Just(Msg::Rotate),
    ];
    let msg = prop_oneof![2 => hs_strategy().prop_map(Msg::Handshake), 7 => other.clone()];
    // positions: handshake first / late / absent / repeated all arise from the mix; a "first" class is forced
    let good = Hs { pstr: Pstr::Right, hash: HashKind::Right, expected_id: true };
    let first = prop_oneof![
        3 => hs_strategy().prop_map(|h| vec![Msg::Handshake(h)]),
        2 => Just(vec![Msg::Handshake(good.clone()), Msg::Bitfield, Msg::Interested]),
        3 => Just(vec![]),
    ];
    (any::<bool>(), first, vec(msg, 0..14), any::<u64>(), prop::bool::weighted(0.12))
        .prop_map(|(outgoing, mut first, rest, seed, many)| {
            first.extend(rest);
            if many {
                // the completions come early: before, right after, or instead of the remote's handshake
                let at = (seed % 3) as usize;
                let at = at.min(first.len());
                first.insert(at, Msg::OthersComplete(60 + (seed >> 8) as u8 % 70));
            }
            Case { many, outgoing, msgs: first, seed }
        })
        .boxed()
}

pub fn check(c: &Case) -> Outcome {
    let mut o = Outcome::new();
    fresh_cwd();
    let npieces = if c.many { 140 } else { 4 };
    let geo = Geometry::single(8, 8 * npieces, c.seed);
    let t = Torrent::new(geo);
    let ih = t.info_hash();
    let c2 = c.clone();
    let t2 = t.clone();
    let res = swarm::run(c.seed, &t, move |w: &mut World| {
        Box::pin(async move {
            let c = c2;
            let mut fails: Vec<(String, String)> = vec![];
            let mut classes: Vec<&'static str> = vec![];
            let mut net = Net::new(&t2);
            // the client owns pieces 0..=2 (downloaded for real), lacks piece 3
            let mut owned0 = vec![false; npieces];
            owned0[0] = true;
            owned0[1] = true;
            owned0[2] = true;
            if !seed_pieces(w, &mut net, &owned0).await {
                return (vec![("harness-setup-failed".to_string(), "set-up download did not complete".to_string())], classes, w.fatal());
            }
            // the serving peer of the `many` cases
            let helper = if c.many {
                let h = net.connect(w, false);
                net.handshake(w, h);
                net.bitfield(w, h, &vec![true; npieces]);
                net.observe(w).await;
                net.unchoke(w, h);
                net.observe(w).await;
                Some(h)
            } else {
                None
            };
            let p = net.connect(w, c.outgoing);
            let conn = net.peers[p].conn;
            let expected_id = net.peers[p].id;
            net.observe(w).await;
            // model of what the client has read
            let mut valid_hs_read = false;
            let mut bad_hs_read = false; // a well-formed handshake with the wrong hash/id
            let mut stream_broken = false; // malformed protocol string: the reference decoder cannot continue
            let mut frames_before: usize = 0;
            let mut first_hs_pos: Option<usize> = None;
            for (k, m) in c.msgs.iter().enumerate() {
                if !w.handler_alive(conn) {
                    // the client has closed this connection (e.g. it refuses traffic before a handshake): nothing
                    // more can be observed, and later messages were never read
                    classes.push("closed-by-client-before-end-of-script");
                    break;
                }
                if let Msg::OthersComplete(k) = m {
                    if let Some(h) = helper {
                        let mut done = 0;
                        for _ in 0..*k {
                            if !net.alive(w, h) || net.answer(w, h, 0).is_none() {
                                break;
                            }
                            done += 1;
                            net.observe(w).await;
                        }
                        if done > 64 {
                            classes.push(">64-pieces-completed-meanwhile");
                        }
                    }
                }
                if let Msg::Rotate = m {
                    w.advance_by(std::time::Duration::from_secs(21)).await;
                    net.fold(w);
                    for _ in 0..3 {
                        let r = swarm::CatchUnwind(Box::pin(w.session.verif_rotate())).await;
                        if !matches!(r, Ok(Ok(()))) {
                            fails.push(("rotation-error".into(), format!("{:?}", r.map(|x| x.map_err(|e| e.to_string())))));
                        }
                    }
                    classes.push("choke-rotation-during-the-script");
                }
                let bytes: Vec<u8> = match m {
                    Msg::OthersComplete(_) | Msg::Rotate => vec![],
                    Msg::Handshake(h) => {
                        let mut hash = ih;
                        match &h.hash {
                            HashKind::Right => {}
                            HashKind::OneBitOff(b) => hash[(*b as usize / 8) % 20] ^= 0x80 >> (*b % 8),
                            HashKind::Random(s) => hash.copy_from_slice(&content(*s, 20)),
                            HashKind::Lookalike(k) => {
                                // first position (from a generated start) where byte < 0x10 is followed by any byte
                                let start = *k as usize % 19;
                                let pos = (0..19).map(|d| (start + d) % 19).find(|p| hash[*p] < 0x10 && hash[*p + 1] >= 0x10);
                                match pos {
                                    Some(p) => {
                                        let (x, y) = (hash[p], hash[p + 1]);
                                        hash[p] = (x << 4) | (y >> 4);
                                        hash[p + 1] = y & 0x0f;
                                        classes.push("lookalike-hash-nibble-resplit");
                                    }
                                    None => hash[start] ^= 0x20,
                                }
                            }
                        }
                        let mut id = expected_id;
                        if !h.expected_id {
                            id[19] ^= 1;
                        }
                        let mut b = wire::encode(&RFrame::handshake(hash, id));
                        match h.pstr {
                            Pstr::Right => {}
                            Pstr::WrongSameLen => b[10] ^= 0x20,
                            Pstr::WrongLen => {
                                b[0] = 18;
                                b.remove(19);
                            }
                        }
                        if first_hs_pos.is_none() {
                            first_hs_pos = Some(k);
                        }
                        if !stream_broken && !bad_hs_read {
                            if h.pstr != Pstr::Right {
                                stream_broken = true;
                                classes.push("wrong-protocol-string");
                            } else if hash != ih {
                                bad_hs_read = true;
                                classes.push("wrong-info-hash");
                            } else if c.outgoing && !h.expected_id {
                                bad_hs_read = true;
                                classes.push("wrong-peer-id");
                            } else {
                                if valid_hs_read {
                                    classes.push("repeated-valid-handshake");
                                }
                                valid_hs_read = true;
                            }
                        }
                        b
                    }
                    Msg::Bitfield => {
                        let mut bits = vec![false; npieces];
                        bits[3] = true;
                        wire::encode(&RFrame::Bitfield(wire::bits_to_bytes(&bits)))
                    }
                    Msg::Interested => wire::encode(&RFrame::Interested),
                    Msg::Unchoke => wire::encode(&RFrame::Unchoke),
                    Msg::Have(i) => wire::encode(&RFrame::Have(*i as u32 % 4)),
                    Msg::Request(i) => wire::encode(&RFrame::Request(*i as u32 % 3, 0, 8)),
                    Msg::KeepAlive => wire::encode(&RFrame::KeepAlive),
                };
                let before_len = net.peers[p].log.len();
                let bad_before = bad_hs_read && !matches!(m, Msg::Handshake(_));
                if !net.peers[p].closed && !bytes.is_empty() {
                    w.send(conn, &bytes);
                }
                net.observe(w).await;
                if let Some((s, d)) = w.fatal() {
                    fails.push((s, d));
                    break;
                }
                let new: Vec<RFrame> = net.peers[p].log[before_len..].iter().map(|(_, f)| f.clone()).collect();
                // (1) after a handshake naming another torrent / identity: silence, KillReq, forgotten
                if bad_hs_read {
                    let is_the_bad_one = matches!(m, Msg::Handshake(_)) && !bad_before;
                    let allowed_now = if is_the_bad_one && c.outgoing && before_len == 0 { usize::MAX } else { 0 };
                    let wrote: Vec<String> = new.iter().filter(|f| !matches!(f, RFrame::KeepAlive)).map(|f| f.short()).collect();
                    if wrote.len() > allowed_now && !(is_the_bad_one && false) {
                        // on the barrier of the bad handshake itself the client must not answer it either
                        fails.push((
                            "writes-after-foreign-handshake".into(),
                            format!("msg {} ({:?}): after reading a handshake for another torrent/identity the client wrote {:?}", k, m, wrote),
                        ));
                        break;
                    }
                    if w.handler_alive(conn) {
                        fails.push(("connection-kept-after-foreign-handshake".into(), format!("msg {} ({:?}): task still running after a handshake with a foreign info-hash/peer id", k, m)));
                        break;
                    }
                    if w.snapshot().peers.iter().any(|ps| ps.addr == net.peers[p].addr) {
                        fails.push(("peer-not-forgotten-after-foreign-handshake".into(), format!("msg {}: peer still registered in the manager", k)));
                        break;
                    }
                }
                // (3) incoming: nothing but keep-alives before a valid handshake has been read
                // (4) no piece data before a valid handshake has been read
                if !valid_hs_read {
                    for f in &new {
                        if matches!(f, RFrame::Piece(..)) {
                            fails.push((
                                "piece-data-before-valid-handshake".into(),
                                format!("msg {} ({:?}): client sent {} although no valid handshake was received (messages so far {:?})", k, m, f.short(), &c.msgs[..=k]),
                            ));
                        } else if !c.outgoing && !matches!(f, RFrame::KeepAlive) {
                            fails.push((
                                "reply-before-valid-handshake".into(),
                                format!("msg {} ({:?}): on an incoming connection the client wrote {} before any valid handshake", k, m, f.short()),
                            ));
                        }
                    }
                    if !fails.is_empty() {
                        break;
                    }
                }
                frames_before = net.peers[p].log.len();
            }
            // (2) the client's own handshake
            let all: Vec<RFrame> = net.peers[p].log.iter().map(|(_, f)| f.clone()).collect();
            let hss: Vec<&RFrame> = all.iter().filter(|f| matches!(f, RFrame::Handshake { .. })).collect();
            for h in &hss {
                if let RFrame::Handshake { pstr, reserved, info_hash, peer_id } = h {
                    if pstr[..] != PSTR[..] || reserved != &[0u8; 8] || info_hash != &ih || peer_id != &OWN_ID {
                        fails.push(("own-handshake-wrong".into(), format!("client handshake {:?}", h)));
                    }
                }
            }
            if hss.len() > 1 {
                fails.push(("own-handshake-sent-twice".into(), format!("client sent {} handshakes", hss.len())));
            }
            if let Some(RFrame::Handshake { .. }) = all.first() {
            } else if !all.is_empty() && all.iter().any(|f| !matches!(f, RFrame::KeepAlive)) {
                let first_non_ka = all.iter().find(|f| !matches!(f, RFrame::KeepAlive)).unwrap();
                if !matches!(first_non_ka, RFrame::Handshake { .. }) {
                    fails.push(("own-handshake-not-first".into(), format!("first message the client wrote is {}", first_non_ka.short())));
                }
            }
            if (valid_hs_read || c.outgoing) && hss.is_empty() && w.fatal().is_none() {
                fails.push(("own-handshake-missing".into(), "the client never sent its handshake".to_string()));
            }
            if valid_hs_read && all.iter().any(|f| matches!(f, RFrame::Piece(..))) {
                classes.push("served-after-valid-handshake");
            }
            let _ = first_hs_pos;
            match c.msgs.iter().position(|m| matches!(m, Msg::Handshake(_))) {
                None => classes.push("handshake-absent"),
                Some(0) => classes.push("handshake-first"),
                Some(_) => classes.push("handshake-late"),
            }
            (fails, classes, None)
        })
    });
    match res {
        Err(p) => o.fail(panic_signature(&p), format!("runtime panic: {}", p)),
        Ok((fails, classes, fatal)) => {
            for cl in classes {
                o.class(cl);
            }
            for (s, d) in fails {
                o.fail(s, d);
            }
            if let Some((s, d)) = fatal {
                o.fail(s, d);
            }
        }
    }
    o.class_if(c.outgoing, "outgoing");
    o.class_if(!c.outgoing, "incoming");
    o.nontrivial = !o.classes.contains(&"handshake-first") || o.classes.iter().any(|c| c.starts_with("wrong-"));
    o
}

pub fn def() -> PropDef {
    PropDef {
        id: "C08",
        rule: "(messages include Rotate: 21 virtual seconds pass and the manager's real choke rotation runs three times, so that an optimistic round is among them) (12 % of the cases: a 140-piece torrent and a second, serving peer that completes 60-129 pieces - one Have broadcast each - at a generated point of the script) the client first downloads 3 of 4 pieces from an honest set-up peer (so files and statuses are consistent); then one connection (incoming: no expected id; outgoing: expected id) receives up to 15 messages: handshakes with protocol string right / wrong of the same length / wrong length, info-hash right / one bit off / random, peer id expected / different, at the first position, late, repeated or absent, mixed with bitfield, interested, unchoke, have, keep-alive and requests for owned pieces. Oracle on the bytes the client wrote, the KillReq and the manager snapshot: after a well-formed handshake with a foreign hash (or, outgoing, a foreign id) nothing more is written, the task ends, the peer is forgotten; the client's handshake is exactly 19|BitTorrent protocol|8x0|info_hash|own id, sent once and first; on an incoming connection nothing but keep-alives is written before a valid handshake has been read; no Piece frame before a valid handshake on any connection. Non-trivial = handshake not first, or some field invalid; distinct by hash of the case.",
        assumptions: &["a handshake whose protocol string is malformed makes the rest of that stream undecodable for the reference model: afterwards only the 'nothing before a valid handshake' clauses are asserted"],
        subs: vec![Sub {
            name: "handshakes",
            cases: |t| t.pick(20_000, 300_000),
            run: |ctx| run_proptest(ctx, "handshakes", strategy(), check),
            replay: |v| replay_case::<Case>(v, check),
            min_class: &[("handshake-late", 0.0941), ("handshake-absent", 0.061), ("wrong-info-hash", 0.1), ("wrong-peer-id", 0.0241), ("wrong-protocol-string", 0.05), ("served-after-valid-handshake", 0.05), ("repeated-valid-handshake", 0.03), ("outgoing", 0.2509), ("incoming", 0.2491), (">64-pieces-completed-meanwhile", 0.025), ("choke-rotation-during-the-script", 0.04)],
        }],
    }
}
