//! Verification harness for MateuszJanda/rdest: property-based checks C01..C20.
#![allow(clippy::all)]

pub mod conv;
pub mod e2e;
pub mod engine;
pub mod fuzzapi;
pub mod gen;
pub mod net;
pub mod props;
pub mod refmodel;
pub mod rt;
pub mod swarm;
