//! Real-process end-to-end runner (DESIGN.md section 3): unmodified `Session::run()` against a scripted HTTP tracker
//! and scripted peers, one case per child process inside its own network namespace (so each child owns port 6881).

use crate::engine::*;
use crate::refmodel::bencode::{self as rb, RVal};
use crate::refmodel::geometry::*;
use crate::refmodel::wire::{self, RFrame};
use serde::{Deserialize, Serialize};
use std::sync::atomic::{AtomicBool, AtomicU64, AtomicUsize, Ordering};
use std::sync::Arc;
use std::time::{Duration, Instant};
use tokio::io::{AsyncReadExt, AsyncWriteExt};
use tokio::net::{TcpListener, TcpStream};

#[derive(Clone, Debug, Serialize, Deserialize, PartialEq)]
pub enum TrackerOutcome {
    /// accept and close without a reply
    Drop,
    Http500,
    Http404,
    Garbage,
    TruncatedBody,
    FailureReason,
    EmptyBody,
}

#[derive(Clone, Debug, Serialize, Deserialize)]
pub struct E2ePeer {
    pub pieces_seed: u64,
    pub essential: bool,
    /// a non-essential peer resets its connection after serving this many blocks
    pub reset_after_blocks: Option<u8>,
    pub unchoke_delay_ms: u16,
}

#[derive(Clone, Debug, Serialize, Deserialize)]
pub struct E2eCase {
    pub geo: Geometry,
    pub peers: Vec<E2ePeer>,
    pub tracker: Vec<TrackerOutcome>,
    /// the tracker's listener opens this late: earlier announces are refused by the OS
    pub tracker_start_delay_ms: u16,
    /// a peer dials the client's port 6881
    pub probe: bool,
    /// C19 mode: the tracker keeps failing (cycling through `tracker`) until the probe has been served or 20 s have passed
    pub hold_until_probe_served: bool,
    /// number of probe peers that dial in one after another; each earlier one disconnects once served
    #[serde(default = "one")]
    pub probes: u8,
    /// C18 mode: the only question is whether the port the client announces is a port on which it answers a BitTorrent
    /// handshake. 0 = off, 1 = port 6881 is free, 2 = port 6881 is already taken by another program
    #[serde(default)]
    pub listen_check: u8,
    /// this many further peers dial in right at the start, announce every piece and then stay connected without ever
    /// unchoking the client (a popular torrent: more interesting peers than the client has slots)
    #[serde(default)]
    pub crowd: u8,
    pub seed: u64,
}

fn one() -> u8 {
    1
}

#[derive(Clone, Debug, Default, Serialize, Deserialize)]
pub struct E2eResult {
    pub netns: bool,
    pub files_ok: bool,
    pub files_detail: String,
    pub completed_ms: Option<u64>,
    pub probe_served_ms: Option<u64>,
    pub tracker_good_ms: Option<u64>,
    pub tracker_requests: usize,
    pub tracker_failures_served: usize,
    pub peers_contacted: Vec<bool>,
    pub peers_handshake_ok: Vec<bool>,
    pub panics: Vec<String>,
    pub deadline_hit: bool,
    /// C18 mode: the `port` parameter of the first announce, and whether a handshake sent to that port was answered
    /// by the client (its own peer id and the torrent's info-hash)
    #[serde(default)]
    pub announced_port: Option<u16>,
    #[serde(default)]
    pub announced_port_answers: Option<bool>,
    /// C19 mode: after the tracker has recovered and every listed peer was contacted, did each of them receive a
    /// message after the handshakes (the session really works with them) within 5 s?
    #[serde(default)]
    pub serves_after_recovery: Option<bool>,
    /// C19 mode with a crowd: was a peer dialling in after the tracker's recovery served?
    #[serde(default)]
    pub crowd_newcomer_served: Option<bool>,
    /// an announce whose `left` is more than the torrent or less than what the peers have not yet delivered
    #[serde(default)]
    pub left_violation: Option<String>,
    pub wall_ms: u64,
    pub error: Option<String>,
}

const TRACKER_PORT: u16 = 7070;
const PEER_PORT0: u16 = 7100;

// ------------------------------------------------------------------ child side

fn enter_netns() -> bool {
    unsafe {
        if libc::unshare(libc::CLONE_NEWNET) != 0 {
            return false;
        }
        // bring lo up
        let fd = libc::socket(libc::AF_INET, libc::SOCK_DGRAM, 0);
        if fd < 0 {
            return false;
        }
        let mut ifr: libc::ifreq = std::mem::zeroed();
        let name = b"lo\0";
        for (i, b) in name.iter().enumerate() {
            ifr.ifr_name[i] = *b as libc::c_char;
        }
        if libc::ioctl(fd, libc::SIOCGIFFLAGS, &mut ifr) != 0 {
            libc::close(fd);
            return false;
        }
        ifr.ifr_ifru.ifru_flags |= (libc::IFF_UP | libc::IFF_RUNNING) as libc::c_short;
        let ok = libc::ioctl(fd, libc::SIOCSIFFLAGS, &ifr) == 0;
        libc::close(fd);
        ok
    }
}

fn peer_pieces(spec: &E2ePeer, k: usize, n: usize, ess: &[usize], seed: u64) -> Vec<bool> {
    let mut x = spec.pieces_seed | 1;
    let mut has: Vec<bool> = (0..n)
        .map(|_| {
            x ^= x << 13;
            x ^= x >> 7;
            x ^= x << 17;
            x % 3 != 0
        })
        .collect();
    for i in 0..n {
        if ess[(i + (seed as usize % 5)) % ess.len()] == k {
            has[i] = true;
        }
    }
    has
}

struct Shared {
    t0: Instant,
    probe_served_ms: AtomicU64,
    tracker_good_ms: AtomicU64,
    tracker_requests: AtomicUsize,
    tracker_failures: AtomicUsize,
    contacted: Vec<AtomicBool>,
    handshake_ok: Vec<AtomicBool>,
    announced_port: AtomicU64,
    engaged: Vec<AtomicBool>,
    /// payload bytes the fake peers have sent to the client so far (an upper bound of what it can have verified)
    served_bytes: AtomicU64,
    left_violation: std::sync::Mutex<Option<String>>,
}

fn ms(t0: Instant) -> u64 {
    t0.elapsed().as_millis() as u64 + 1
}

async fn read_http_request(s: &mut TcpStream) -> Vec<u8> {
    let mut buf = vec![];
    let mut tmp = [0u8; 4096];
    while !buf.windows(4).any(|w| w == b"\r\n\r\n") {
        match tokio::time::timeout(Duration::from_secs(5), s.read(&mut tmp)).await {
            Ok(Ok(n)) if n > 0 => buf.extend_from_slice(&tmp[..n]),
            _ => break,
        }
    }
    buf
}

async fn fake_tracker(case: E2eCase, t: Torrent, sh: Arc<Shared>) {
    if case.tracker_start_delay_ms > 0 {
        tokio::time::sleep(Duration::from_millis(case.tracker_start_delay_ms as u64)).await;
    }
    let listener = match TcpListener::bind(("127.0.0.1", TRACKER_PORT)).await {
        Ok(l) => l,
        Err(_) => return,
    };
    let mut k = 0usize;
    loop {
        let (mut s, _) = match listener.accept().await {
            Ok(x) => x,
            Err(_) => continue,
        };
        let _req = read_http_request(&mut s).await;
        if sh.announced_port.load(Ordering::SeqCst) == 0 {
            let text = String::from_utf8_lossy(&_req).to_string();
            let line = text.lines().next().unwrap_or("").to_string();
            if let Some(q) = line.split(' ').nth(1).and_then(|p| p.split_once('?')).map(|x| x.1.to_string()) {
                for kv in q.split('&') {
                    if let Some(v) = kv.strip_prefix("port=") {
                        if let Ok(p) = v.parse::<u16>() {
                            sh.announced_port.store(p as u64 + 1, Ordering::SeqCst);
                        }
                    }
                }
            }
        }
        {
            // `left` of every announce: never more than the whole torrent, never less than what cannot have arrived yet
            let text = String::from_utf8_lossy(&_req).to_string();
            let line = text.lines().next().unwrap_or("").to_string();
            if let Some(q) = line.split(' ').nth(1).and_then(|p| p.split_once('?')).map(|x| x.1.to_string()) {
                for kv in q.split('&') {
                    if let Some(v) = kv.strip_prefix("left=") {
                        if let Ok(left) = v.parse::<u64>() {
                            let total = t.geo.total() as u64;
                            let served = sh.served_bytes.load(Ordering::SeqCst);
                            if left > total || left < total.saturating_sub(served) {
                                let mut lv = sh.left_violation.lock().unwrap();
                                if lv.is_none() {
                                    *lv = Some(format!("announce #{} says left={} for a torrent of {} bytes of which the peers had delivered {} bytes at that moment", sh.tracker_requests.load(Ordering::SeqCst) + 1, left, total, served));
                                }
                            }
                        }
                    }
                }
            }
        }
        sh.tracker_requests.fetch_add(1, Ordering::SeqCst);
        let hold = case.hold_until_probe_served && sh.probe_served_ms.load(Ordering::SeqCst) == 0 && sh.t0.elapsed() < Duration::from_secs(20);
        let fail = if !case.tracker.is_empty() && (k < case.tracker.len() || hold) { Some(case.tracker[k % case.tracker.len()].clone()) } else { None };
        k += 1;
        let reply = |status: &str, body: &[u8], declared: usize| -> Vec<u8> {
            let mut v = format!("HTTP/1.1 {}\r\nContent-Length: {}\r\nConnection: close\r\n\r\n", status, declared).into_bytes();
            v.extend_from_slice(body);
            v
        };
        match fail {
            Some(f) => {
                sh.tracker_failures.fetch_add(1, Ordering::SeqCst);
                let bytes: Vec<u8> = match f {
                    TrackerOutcome::Drop => vec![],
                    TrackerOutcome::Http500 => reply("500 Internal Server Error", b"oops", 4),
                    TrackerOutcome::Http404 => reply("404 Not Found", b"", 0),
                    TrackerOutcome::Garbage => reply("200 OK", b"<html>not bencode</html>", 24),
                    TrackerOutcome::TruncatedBody => reply("200 OK", b"d8:intervali18", 60),
                    TrackerOutcome::FailureReason => {
                        let b = rb::encode(&RVal::Dict(vec![(b"failure reason".to_vec(), RVal::s("torrent not registered"))]));
                        reply("200 OK", &b, b.len())
                    }
                    TrackerOutcome::EmptyBody => reply("200 OK", b"", 0),
                };
                if !bytes.is_empty() {
                    let _ = s.write_all(&bytes).await;
                }
                let _ = s.shutdown().await;
            }
            None => {
                // every third case: the tracker lists each peer twice (trackers do repeat entries)
                let listed: Vec<usize> = if case.seed % 3 == 0 { (0..case.peers.len()).chain(0..case.peers.len()).collect() } else { (0..case.peers.len()).collect() };
                let peers: Vec<RVal> = listed
                    .into_iter()
                    .map(|i| {
                        RVal::Dict(vec![
                            (b"ip".to_vec(), RVal::s("127.0.0.1")),
                            (b"peer id".to_vec(), RVal::Str(peer_id(i).to_vec())),
                            (b"port".to_vec(), RVal::Int((PEER_PORT0 + i as u16) as i64)),
                        ])
                    })
                    .collect();
                let b = rb::encode(&RVal::Dict(vec![(b"interval".to_vec(), RVal::Int(1800)), (b"peers".to_vec(), RVal::List(peers))]));
                let _ = s.write_all(&reply("200 OK", &b, b.len())).await;
                let _ = s.shutdown().await;
                if sh.tracker_good_ms.load(Ordering::SeqCst) == 0 {
                    sh.tracker_good_ms.store(ms(sh.t0), Ordering::SeqCst);
                }
                let _ = &t;
            }
        }
    }
}

fn peer_id(i: usize) -> [u8; 20] {
    // peer ids are 20 arbitrary bytes (most clients fill the tail with random ones): not text, not valid UTF-8
    let mut id = *b"-FK0001-peerpeerpeer";
    id[8..16].copy_from_slice(&[0xff, 0x80, 0xc3, 0x28, 0x00, 0xe2, 0x82, 0xfe]);
    id[19] = b'0' + i as u8;
    id
}

/// Read frames from a socket with the reference decoder.
struct Reader {
    buf: Vec<u8>,
}

impl Reader {
    async fn next(&mut self, s: &mut TcpStream, timeout: Duration) -> Option<RFrame> {
        loop {
            let d = wire::decode(&self.buf);
            if let Some((f, end)) = d.frames.first() {
                let f = f.clone();
                self.buf.drain(..*end);
                return Some(f);
            }
            let mut tmp = [0u8; 65536];
            match tokio::time::timeout(timeout, s.read(&mut tmp)).await {
                Ok(Ok(n)) if n > 0 => self.buf.extend_from_slice(&tmp[..n]),
                _ => return None,
            }
        }
    }
}

/// An honest seeder the client dials (outgoing connection for the client: it sends its handshake first).
async fn fake_peer(i: usize, spec: E2ePeer, has: Vec<bool>, t: Torrent, own_id: [u8; 20], sh: Arc<Shared>) {
    let listener = match TcpListener::bind(("127.0.0.1", PEER_PORT0 + i as u16)).await {
        Ok(l) => l,
        Err(_) => return,
    };
    loop {
        let (mut s, _) = match listener.accept().await {
            Ok(x) => x,
            Err(_) => continue,
        };
        sh.contacted[i].store(true, Ordering::SeqCst);
        let mut rd = Reader { buf: vec![] };
        // the client's handshake comes first
        match rd.next(&mut s, Duration::from_secs(10)).await {
            Some(RFrame::Handshake { info_hash, peer_id: pid, pstr, reserved }) => {
                let ok = info_hash == t.info_hash() && pid == own_id && pstr[..] == wire::PSTR[..] && reserved == [0u8; 8];
                sh.handshake_ok[i].store(ok, Ordering::SeqCst);
            }
            _ => continue,
        }
        let _ = s.write_all(&wire::encode(&RFrame::handshake(t.info_hash(), peer_id(i)))).await;
        let _ = s.write_all(&wire::encode(&RFrame::Bitfield(wire::bits_to_bytes(&has)))).await;
        let mut unchoked = false;
        let unchoke_at = Instant::now() + Duration::from_millis(spec.unchoke_delay_ms as u64);
        let mut served = 0usize;
        loop {
            if !unchoked && Instant::now() >= unchoke_at {
                let _ = s.write_all(&wire::encode(&RFrame::Unchoke)).await;
                unchoked = true;
            }
            let f = match rd.next(&mut s, Duration::from_millis(50)).await {
                Some(f) => f,
                None => {
                    // timeout or closed: find out which
                    let mut probe = [0u8; 1];
                    match s.try_read(&mut probe) {
                        Ok(0) => break,
                        Ok(_) => {
                            rd.buf.push(probe[0]);
                            continue;
                        }
                        Err(e) if e.kind() == std::io::ErrorKind::WouldBlock => continue,
                        Err(_) => break,
                    }
                }
            };
            sh.engaged[i].store(true, Ordering::SeqCst);
            if let RFrame::Request(pi, b, l) = f {
                if unchoked && (pi as usize) < has.len() && has[pi as usize] {
                    let piece = t.piece(pi as usize);
                    let e = (b as usize + l as usize).min(piece.len());
                    let data = piece[(b as usize).min(e)..e].to_vec();
                    sh.served_bytes.fetch_add(data.len() as u64, Ordering::SeqCst);
                    let _ = s.write_all(&wire::encode(&RFrame::Piece(pi, b, data))).await;
                    served += 1;
                    if let Some(k) = spec.reset_after_blocks {
                        if !spec.essential && served >= k as usize {
                            // abrupt reset
                            let _ = s.set_linger(Some(Duration::from_secs(0)));
                            drop(s);
                            return;
                        }
                    }
                }
            }
        }
    }
}

/// Peers that dial the client's listening port one after another and wait to be served (handshake + bitfield).
/// Every probe but the last disconnects once served; `probe_served_ms` is set when the last one has been served.
async fn probe_peer(t: Torrent, own_id: [u8; 20], sh: Arc<Shared>, probes: u8) {
    tokio::time::sleep(Duration::from_millis(300)).await;
    let probes = probes.max(1);
    let mut k = 0u8;
    loop {
        if let Ok(mut s) = TcpStream::connect(("127.0.0.1", 6881)).await {
            let mut id = *b"-FK0001-probeprobe00";
            id[19] = b'0' + k;
            let _ = s.write_all(&wire::encode(&RFrame::handshake(t.info_hash(), id))).await;
            let mut rd = Reader { buf: vec![] };
            let mut got_hs = false;
            let mut got_bf = false;
            let start = Instant::now();
            while start.elapsed() < Duration::from_secs(40) {
                match rd.next(&mut s, Duration::from_millis(200)).await {
                    Some(RFrame::Handshake { info_hash, peer_id, .. }) => {
                        got_hs = info_hash == t.info_hash() && peer_id == own_id;
                    }
                    Some(RFrame::Bitfield(_)) => got_bf = true,
                    Some(_) => {}
                    None => {}
                }
                if got_hs && got_bf {
                    k += 1;
                    if k >= probes {
                        sh.probe_served_ms.store(ms(sh.t0), Ordering::SeqCst);
                        // stay connected quietly
                        tokio::time::sleep(Duration::from_secs(3600)).await;
                    }
                    // served: this probe leaves, the next one dials in a moment later
                    drop(s);
                    tokio::time::sleep(Duration::from_millis(150)).await;
                    break;
                }
            }
            continue;
        }
        tokio::time::sleep(Duration::from_millis(200)).await;
    }
}

pub fn child_main(case_path: &str, out_path: &str) -> i32 {
    let case: E2eCase = match std::fs::read(case_path).ok().and_then(|b| serde_json::from_slice(&b).ok()) {
        Some(c) => c,
        None => return 2,
    };
    let mut res = E2eResult::default();
    res.netns = enter_netns();
    if !res.netns {
        res.error = Some("unshare(CLONE_NEWNET) not permitted".into());
        let _ = std::fs::write(out_path, serde_json::to_vec(&res).unwrap());
        return 4;
    }
    // panics anywhere (also in spawned tasks) are recorded
    let panics: Arc<std::sync::Mutex<Vec<String>>> = Arc::new(std::sync::Mutex::new(vec![]));
    {
        let panics = panics.clone();
        std::panic::set_hook(Box::new(move |info| {
            let loc = info.location().map(|l| format!("{}:{}", l.file(), l.line())).unwrap_or_default();
            let msg = if let Some(s) = info.payload().downcast_ref::<&str>() {
                s.to_string()
            } else if let Some(s) = info.payload().downcast_ref::<String>() {
                s.clone()
            } else {
                "panic".into()
            };
            panics.lock().unwrap().push(format!("{} @ {}", msg, loc));
        }));
    }
    let announce = format!("http://127.0.0.1:{}/announce", TRACKER_PORT);
    let t = Torrent::with_announce(case.geo.clone(), &announce);
    let n = t.geo.pieces_num();
    let m = t.metainfo().expect("metainfo");
    let own_id = *b"-VF0001-e2ee2ee2ee2e";
    let ess: Vec<usize> = {
        let e: Vec<usize> = (0..case.peers.len()).filter(|i| case.peers[*i].essential).collect();
        if e.is_empty() {
            vec![0]
        } else {
            e
        }
    };
    let sh = Arc::new(Shared {
        t0: Instant::now(),
        probe_served_ms: AtomicU64::new(0),
        tracker_good_ms: AtomicU64::new(0),
        tracker_requests: AtomicUsize::new(0),
        tracker_failures: AtomicUsize::new(0),
        announced_port: AtomicU64::new(0),
        contacted: (0..case.peers.len()).map(|_| AtomicBool::new(false)).collect(),
        handshake_ok: (0..case.peers.len()).map(|_| AtomicBool::new(false)).collect(),
        engaged: (0..case.peers.len()).map(|_| AtomicBool::new(false)).collect(),
        served_bytes: AtomicU64::new(0),
        left_violation: std::sync::Mutex::new(None),
    });
    let rt = tokio::runtime::Builder::new_current_thread().enable_all().build().expect("runtime");
    let started = Instant::now();
    let cwd = std::env::current_dir().unwrap();
    let expect_files: Vec<(String, usize, usize)> = t
        .file_spans()
        .into_iter()
        .map(|(p, s, l)| (if case.geo.multi { format!("{}/{}", case.geo.name, p) } else { p }, s, l))
        .collect();
    let download_mode = !case.hold_until_probe_served && case.listen_check == 0;
    // C18 mode 2: somebody else already listens on 6881 (both wildcard and loopback binds by the client must fail)
    let _squatter = if case.listen_check == 2 { std::net::TcpListener::bind("0.0.0.0:6881").ok() } else { None };
    let listen_answer: Arc<std::sync::Mutex<Option<bool>>> = Arc::new(std::sync::Mutex::new(None));
    let listen_answer2 = listen_answer.clone();
    let after_recovery: Arc<std::sync::Mutex<Option<bool>>> = Arc::new(std::sync::Mutex::new(None));
    let after_recovery2 = after_recovery.clone();
    let crowd_served: Arc<std::sync::Mutex<Option<bool>>> = Arc::new(std::sync::Mutex::new(None));
    let crowd_served2 = crowd_served.clone();
    let ih = t.info_hash();
    let outcome = std::panic::catch_unwind(std::panic::AssertUnwindSafe(|| {
        rt.block_on(async {
            tokio::spawn(fake_tracker(case.clone(), t.clone(), sh.clone()));
            for (i, spec) in case.peers.iter().enumerate() {
                let has = peer_pieces(spec, i, n, &ess, case.seed);
                tokio::spawn(fake_peer(i, spec.clone(), has, t.clone(), own_id, sh.clone()));
            }
            if case.probe {
                tokio::spawn(probe_peer(t.clone(), own_id, sh.clone(), case.probes));
            }
            for k in 0..case.crowd {
                let t = t.clone();
                tokio::spawn(async move {
                    tokio::time::sleep(Duration::from_millis(200 + 10 * k as u64)).await;
                    for _ in 0..50 {
                        if let Ok(mut s) = TcpStream::connect(("127.0.0.1", 6881)).await {
                            let mut id = *b"-FK0001-crowdcrowd00";
                            id[18] = b'a' + (k / 10) % 26;
                            id[19] = b'0' + k % 10;
                            let _ = s.write_all(&wire::encode(&RFrame::handshake(t.info_hash(), id))).await;
                            let _ = s.write_all(&wire::encode(&RFrame::Bitfield(wire::bits_to_bytes(&vec![true; t.geo.pieces_num()])))).await;
                            // read and discard whatever the client says, for as long as it keeps the connection
                            let mut buf = [0u8; 4096];
                            loop {
                                match s.read(&mut buf).await {
                                    Ok(0) | Err(_) => break,
                                    Ok(_) => {}
                                }
                            }
                            return;
                        }
                        tokio::time::sleep(Duration::from_millis(100)).await;
                    }
                });
            }
            // give the listeners a moment to bind before the client announces
            tokio::time::sleep(Duration::from_millis(30)).await;
            let mut session = rdest::Session::new(m, own_id);
            let supervisor = async {
                // C19 mode: the client retries once per second, so n scripted failures need at least n seconds
                let deadline = if download_mode { Duration::from_secs(60) } else { Duration::from_secs(50 + 2 * case.tracker.len() as u64) };
                loop {
                    tokio::time::sleep(Duration::from_millis(25)).await;
                    if case.listen_check > 0 {
                        let ap = sh.announced_port.load(Ordering::SeqCst);
                        if ap > 0 {
                            // dial the announced port and shake hands
                            let port = (ap - 1) as u16;
                            let mut ok = false;
                            if let Ok(Ok(mut s)) = tokio::time::timeout(Duration::from_secs(2), TcpStream::connect(("127.0.0.1", port))).await {
                                let _ = s.write_all(&wire::encode(&RFrame::handshake(ih, *b"-FK0001-listenlisten"))).await;
                                let mut got = vec![];
                                let mut tmp = [0u8; 256];
                                while got.len() < 68 {
                                    match tokio::time::timeout(Duration::from_secs(2), s.read(&mut tmp)).await {
                                        Ok(Ok(n)) if n > 0 => got.extend_from_slice(&tmp[..n]),
                                        _ => break,
                                    }
                                }
                                ok = got.len() >= 68 && got[28..48] == ih && got[48..68] == own_id;
                            }
                            *listen_answer2.lock().unwrap() = Some(ok);
                            return (true, false);
                        }
                        if started.elapsed() > Duration::from_secs(8) {
                            return (false, true);
                        }
                        continue;
                    }
                    if download_mode {
                        // done when every expected file is present with the right length and content
                        let mut all = true;
                        for (p, s, l) in &expect_files {
                            match std::fs::read(cwd.join(p)) {
                                Ok(d) if d.len() == *l && d == t.content[*s..*s + *l] => {}
                                _ => {
                                    all = false;
                                    break;
                                }
                            }
                        }
                        if all {
                            return (true, false);
                        }
                    } else {
                        // C19 mode: done when the tracker has succeeded and every listed peer was contacted
                        let good = sh.tracker_good_ms.load(Ordering::SeqCst) > 0;
                        let all_contacted = sh.contacted.iter().all(|c| c.load(Ordering::SeqCst));
                        if good && case.crowd >= 11 {
                            // The client already has more interesting connections than slots: it need not dial the
                            // listed peers. The session must still be alive: half a second after the good reply a new
                            // peer dials in and must get handshake and bitfield within 5 s.
                            tokio::time::sleep(Duration::from_millis(500)).await;
                            let mut served = false;
                            if let Ok(Ok(mut s)) = tokio::time::timeout(Duration::from_secs(2), TcpStream::connect(("127.0.0.1", 6881))).await {
                                let _ = s.write_all(&wire::encode(&RFrame::handshake(ih, *b"-FK0001-afterafter00"))).await;
                                let mut rd = Reader { buf: vec![] };
                                let (mut hs, mut bf) = (false, false);
                                let st = Instant::now();
                                while st.elapsed() < Duration::from_secs(5) && !(hs && bf) {
                                    match rd.next(&mut s, Duration::from_millis(200)).await {
                                        Some(RFrame::Handshake { info_hash, .. }) => hs = info_hash == ih,
                                        Some(RFrame::Bitfield(_)) => bf = true,
                                        _ => {}
                                    }
                                }
                                served = hs && bf;
                            }
                            *crowd_served2.lock().unwrap() = Some(served);
                            return (true, false);
                        }
                        if good && all_contacted {
                            // let handshakes arrive
                            tokio::time::sleep(Duration::from_millis(300)).await;
                            // and does the session go on with them? every listed peer must receive something after the
                            // handshakes (bitfield, interested, a request) within 5 s
                            let st = Instant::now();
                            while st.elapsed() < Duration::from_secs(5) && !sh.engaged.iter().all(|c| c.load(Ordering::SeqCst)) {
                                tokio::time::sleep(Duration::from_millis(50)).await;
                            }
                            let served = sh.engaged.iter().all(|c| c.load(Ordering::SeqCst));
                            *after_recovery2.lock().unwrap() = Some(served);
                            return (true, false);
                        }
                    }
                    if started.elapsed() > deadline {
                        return (false, true);
                    }
                }
            };
            tokio::select! {
                _ = session.run() => (false, false),
                r = supervisor => r,
            }
        })
    }));
    let (done, deadline_hit) = match outcome {
        Ok(x) => x,
        Err(_) => (false, false),
    };
    res.wall_ms = started.elapsed().as_millis() as u64;
    res.deadline_hit = deadline_hit;
    let ap = sh.announced_port.load(Ordering::SeqCst);
    res.announced_port = if ap > 0 { Some((ap - 1) as u16) } else { None };
    res.announced_port_answers = *listen_answer.lock().unwrap();
    res.serves_after_recovery = *after_recovery.lock().unwrap();
    res.crowd_newcomer_served = *crowd_served.lock().unwrap();
    res.left_violation = sh.left_violation.lock().unwrap().clone();
    if done {
        res.completed_ms = Some(res.wall_ms);
    }
    // files
    let mut detail = String::new();
    let mut ok = true;
    for (p, s, l) in &expect_files {
        match std::fs::read(cwd.join(p)) {
            Ok(d) => {
                if d.len() != *l {
                    ok = false;
                    detail.push_str(&format!("{}: {} bytes, expected {}; ", p, d.len(), l));
                } else if d != t.content[*s..*s + *l] {
                    ok = false;
                    detail.push_str(&format!("{}: content differs; ", p));
                }
            }
            Err(_) => {
                ok = false;
                detail.push_str(&format!("{}: missing; ", p));
            }
        }
    }
    res.files_ok = ok;
    res.files_detail = detail;
    let v = |x: u64| if x == 0 { None } else { Some(x) };
    res.probe_served_ms = v(sh.probe_served_ms.load(Ordering::SeqCst));
    res.tracker_good_ms = v(sh.tracker_good_ms.load(Ordering::SeqCst));
    res.tracker_requests = sh.tracker_requests.load(Ordering::SeqCst);
    res.tracker_failures_served = sh.tracker_failures.load(Ordering::SeqCst);
    res.peers_contacted = sh.contacted.iter().map(|c| c.load(Ordering::SeqCst)).collect();
    res.peers_handshake_ok = sh.handshake_ok.iter().map(|c| c.load(Ordering::SeqCst)).collect();
    res.panics = panics.lock().unwrap().clone();
    let _ = std::fs::write(out_path, serde_json::to_vec(&res).unwrap());
    // do not run destructors of a runtime that may still host the session
    std::process::exit(0);
}

// ------------------------------------------------------------------ parent side

static CASE_NO: AtomicUsize = AtomicUsize::new(0);

/// Run one case in a child process. Err(reason) = inconclusive (not a verdict).
pub fn run_child(case: &E2eCase, watchdog: Duration) -> Result<E2eResult, String> {
    let dir = fresh_cwd();
    let k = CASE_NO.fetch_add(1, Ordering::SeqCst);
    let case_path = dir.join(format!("case-{}.json", k));
    let out_path = dir.join(format!("result-{}.json", k));
    std::fs::write(&case_path, serde_json::to_vec(case).unwrap()).map_err(|e| e.to_string())?;
    let run_dir = dir.join("run");
    std::fs::create_dir_all(&run_dir).map_err(|e| e.to_string())?;
    let exe = std::env::current_exe().map_err(|e| e.to_string())?;
    let mut child = std::process::Command::new(exe)
        .arg("--e2e-child")
        .arg(&case_path)
        .arg(&out_path)
        .current_dir(&run_dir)
        .stdin(std::process::Stdio::null())
        .stdout(std::process::Stdio::null())
        .stderr(std::process::Stdio::null())
        .spawn()
        .map_err(|e| e.to_string())?;
    let start = Instant::now();
    loop {
        match child.try_wait() {
            Ok(Some(_)) => break,
            Ok(None) => {
                if start.elapsed() > watchdog {
                    let _ = child.kill();
                    let _ = child.wait();
                    return Err(format!("child killed by watchdog after {:?}", watchdog));
                }
                std::thread::sleep(Duration::from_millis(10));
            }
            Err(e) => return Err(e.to_string()),
        }
    }
    match std::fs::read(&out_path).ok().and_then(|b| serde_json::from_slice::<E2eResult>(&b).ok()) {
        Some(r) => {
            if !r.netns {
                return Err(r.error.unwrap_or_else(|| "no network namespace".into()));
            }
            Ok(r)
        }
        None => Err("child wrote no result (crashed?)".into()),
    }
}

// ------------------------------------------------------------------ property subs

use proptest::collection::vec;
use proptest::prelude::*;

fn small_geo() -> BoxedStrategy<Geometry> {
    (prop::sample::select(vec![64usize, 1000, 16384, 20000]), any::<bool>(), any::<u64>(), 1usize..=3)
        .prop_flat_map(|(pl, multi, seed, nf)| {
            let nfiles = if multi { nf } else { 1 };
            (Just(pl), Just(multi), Just(seed), vec(prop_oneof![1 => Just(0usize), 4 => 1..=4 * pl, 1 => 1..=pl / 2 + 1], nfiles..=nfiles))
        })
        .prop_map(|(pl, multi, seed, lens)| {
            let mut files: Vec<(String, usize)> = lens.iter().enumerate().map(|(k, l)| (if k % 2 == 1 { format!("sub/f{}", k) } else { format!("f{}", k) }, *l)).collect();
            if files.iter().map(|f| f.1).sum::<usize>() == 0 {
                files[0].1 = pl + 1;
            }
            let name = if multi { "out".to_string() } else { files[0].0.clone() };
            Geometry { piece_len: pl, files, multi, name, content_seed: seed }
        })
        .boxed()
}

fn outcome() -> BoxedStrategy<TrackerOutcome> {
    prop::sample::select(vec![
        TrackerOutcome::Drop,
        TrackerOutcome::Http500,
        TrackerOutcome::Http404,
        TrackerOutcome::Garbage,
        TrackerOutcome::TruncatedBody,
        TrackerOutcome::FailureReason,
        TrackerOutcome::EmptyBody,
    ])
    .boxed()
}

fn peer_spec() -> BoxedStrategy<E2ePeer> {
    (any::<u64>(), prop::bool::weighted(0.6), prop_oneof![2 => Just(None), 1 => (0u8..4).prop_map(Some)], 0u16..300)
        .prop_map(|(pieces_seed, essential, reset_after_blocks, unchoke_delay_ms)| E2ePeer { pieces_seed, essential, reset_after_blocks, unchoke_delay_ms })
        .boxed()
}

/// C02 layer 2
pub fn download_strategy() -> BoxedStrategy<E2eCase> {
    (small_geo(), vec(peer_spec(), 1..=3), prop_oneof![3 => Just(vec![]), 1 => vec(outcome(), 1..3)], prop_oneof![3 => Just(0u16), 1 => Just(1200u16)], any::<bool>(), any::<u64>())
        .prop_map(|(geo, mut peers, tracker, tracker_start_delay_ms, probe, seed)| {
            peers[0].essential = true;
            E2eCase { geo, peers, tracker, tracker_start_delay_ms, probe, hold_until_probe_served: false, probes: 1, listen_check: 0, crowd: 0, seed }
        })
        .boxed()
}

/// Real-process runs depend on the machine's scheduling and on wall-clock deadlines. A failure counts only if the same
/// case fails again (twice in at most three runs); one that does not come back is counted as excluded
/// (`e2e-failure-not-reproduced`), never reported. Seeded defects fail every time; what this gives up is sensitivity
/// to races that show less often than every other run.
fn confirmed(c: &E2eCase, once: fn(&E2eCase) -> Outcome) -> Outcome {
    let first = once(c);
    if first.ok() {
        return first;
    }
    let second = once(c);
    if !second.ok() {
        return first;
    }
    let third = once(c);
    if !third.ok() {
        return first;
    }
    let mut o = second;
    o.exclude("e2e-failure-not-reproduced");
    o
}

pub fn check_download(c: &E2eCase) -> Outcome {
    confirmed(c, check_download_once)
}

fn check_download_once(c: &E2eCase) -> Outcome {
    let mut o = Outcome::new();
    o.class_if(c.peers.len() >= 2, ">=2-peers");
    o.class_if(c.peers.iter().any(|p| !p.essential && p.reset_after_blocks.is_some()), "non-essential-peer-resets");
    o.class_if(!c.tracker.is_empty() || c.tracker_start_delay_ms > 0, "tracker-fails-first");
    o.class_if(c.probe, "peer-dials-in");
    o.class_if(c.geo.multi, "multi-file");
    o.nontrivial = c.peers.len() >= 2 || !c.tracker.is_empty();
    let mut r = run_child(c, Duration::from_secs(90));
    if let Ok(res) = &r {
        if res.deadline_hit && res.panics.is_empty() {
            // confirm a stall once before reporting it
            o.class("stall-rerun");
            r = run_child(c, Duration::from_secs(150));
        }
    }
    match r {
        Err(e) => {
            o.class("inconclusive");
            o.exclude("e2e-inconclusive");
            let _ = e;
        }
        Ok(res) => {
            o.class("conclusive");
            if !res.panics.is_empty() {
                o.fail("process-panic", format!("panic(s) in the client process: {:?}", res.panics));
            }
            o.class_if(res.tracker_requests >= 2, "announced-again-during-the-download");
            if let Some(v) = &res.left_violation {
                // (C18's clause "the number of bytes left", seen where the real Session announces again mid-download)
                o.fail("announce-left-outside-what-can-be-missing", v.clone());
            }
            if res.completed_ms.is_none() || !res.files_ok {
                o.fail(
                    "download-incomplete-in-real-process",
                    format!(
                        "honest swarm, but after {} ms the output is not complete/identical: {} (tracker requests {}, good reply at {:?} ms, peers contacted {:?})",
                        res.wall_ms, res.files_detail, res.tracker_requests, res.tracker_good_ms, res.peers_contacted
                    ),
                );
            }
            for (i, okh) in res.peers_handshake_ok.iter().enumerate() {
                if res.peers_contacted[i] && !okh {
                    o.fail("wrong-handshake-to-listed-peer", format!("listed peer {} was contacted with a wrong handshake", i));
                }
            }
        }
    }
    o
}

/// C19 (b)
pub fn fault_strategy(tier: Tier) -> BoxedStrategy<E2eCase> {
    let n = match tier {
        Tier::Quick => (1usize..=4).boxed(),
        Tier::Thorough => prop_oneof![4 => (1usize..=6).boxed(), 1 => prop::sample::select(vec![63usize, 64, 65, 66, 70]).boxed()].boxed(),
    };
    (n, any::<u64>(), 1u8..=6)
        .prop_flat_map(|(n, seed, probes)| (vec(outcome(), n..=n), vec(peer_spec(), 1..=3), Just(seed), prop_oneof![3 => Just(0u16), 1 => Just(1200u16)], Just(probes)))
        .prop_map(|(tracker, peers, seed, delay, probes)| E2eCase {
            geo: Geometry::single(64, 200, seed),
            peers,
            tracker,
            tracker_start_delay_ms: delay,
            probe: true,
            hold_until_probe_served: true,
            probes,
            listen_check: 0,
            crowd: if seed % 4 == 0 { 12 + (seed >> 8) as u8 % 4 } else { 0 },
            seed,
        })
        .boxed()
}

pub fn check_faults(c: &E2eCase) -> Outcome {
    confirmed(c, check_faults_once)
}

fn check_faults_once(c: &E2eCase) -> Outcome {
    let mut o = Outcome::new();
    let kinds: std::collections::BTreeSet<String> = c.tracker.iter().map(|t| format!("{:?}", t)).collect();
    o.nontrivial = kinds.len() >= 2 || c.tracker_start_delay_ms > 0;
    o.class_if(kinds.len() >= 2, ">=2-fault-kinds");
    o.class_if(c.tracker.len() >= 60, "more-failures-than-channel-capacity");
    o.class_if(c.tracker_start_delay_ms > 0, "connection-refused-first");
    o.class_if(c.probes >= 2, "peer-leaves-while-tracker-fails");
    o.class_if(c.probes >= 4, ">=3-peers-leave-while-tracker-fails");
    o.class_if(c.crowd >= 12, ">=12-interesting-peers-connected-when-the-tracker-recovers");
    let watchdog = Duration::from_secs(90 + 3 * c.tracker.len() as u64);
    match run_child(c, watchdog) {
        Err(_) => {
            o.class("inconclusive");
            o.exclude("e2e-inconclusive");
        }
        Ok(res) => {
            o.class("conclusive");
            if !res.panics.is_empty() {
                o.fail("process-panic", format!("panic(s) in the client process: {:?}", res.panics));
            }
            // ordering-based: the tracker kept failing until the probe was served (or 20 s passed)
            match (res.probe_served_ms, res.tracker_good_ms) {
                (Some(p), Some(g)) if p <= g => {}
                (Some(p), None) => {
                    // served, but the tracker never got to succeed within the run
                    o.fail("no-contact-after-good-tracker-reply", format!("probe served at {} ms but the tracker's good reply was never fetched ({} requests)", p, res.tracker_requests));
                }
                (served, good) => {
                    o.fail(
                        "session-not-serving-while-tracker-fails",
                        format!(
                            "a peer dialling :6881 while the tracker was failing was served at {:?} ms; the tracker failed {} times and first succeeded at {:?} ms (it keeps failing until the probe is served or 20 s pass)",
                            served, res.tracker_failures_served, good
                        ),
                    );
                }
            }
            if res.serves_after_recovery == Some(false) {
                o.fail(
                    "listed-peers-contacted-but-session-does-not-go-on",
                    format!("the tracker recovered after {} failed announces and every listed peer got the client's handshake, but at least one of them received nothing after answering it within 5 s ({} probes had come and gone during the outage)", res.tracker_failures_served, c.probes.saturating_sub(1)),
                );
            }
            if res.crowd_newcomer_served == Some(false) {
                o.fail(
                    "session-dead-after-tracker-recovery-in-a-crowd",
                    format!("{} interesting peers were connected when the tracker recovered after {} failed announces; a peer dialling :6881 half a second later got no handshake and bitfield within 5 s (panics {:?})", c.crowd, res.tracker_failures_served, res.panics),
                );
            }
            if res.tracker_good_ms.is_some() && c.crowd < 11 {
                for (i, cted) in res.peers_contacted.iter().enumerate() {
                    if !cted {
                        o.fail("listed-peer-not-contacted", format!("after the good tracker reply peer {} was not contacted within the run ({} ms)", i, res.wall_ms));
                    } else if !res.peers_handshake_ok[i] {
                        o.fail("wrong-handshake-to-listed-peer", format!("listed peer {} got a wrong handshake", i));
                    }
                }
            }
        }
    }
    o
}

pub fn c02_process_sub() -> Sub {
    Sub {
        name: "process",
        cases: |t| t.pick(32, 400),
        run: |ctx| run_proptest_cfg(ctx, "process", download_strategy(), check_download, 4),
        replay: |v| replay_case::<E2eCase>(v, check_download),
        min_class: &[("conclusive", 0.5)],
    }
}

// ------------------------------------------------------------------ C18: the announced port is the listening port

fn listen_strategy() -> BoxedStrategy<E2eCase> {
    (small_geo(), prop_oneof![Just(1u8), Just(2u8)], any::<u64>())
        .prop_map(|(geo, listen_check, seed)| E2eCase {
            geo,
            peers: vec![],
            tracker: vec![],
            tracker_start_delay_ms: 0,
            probe: false,
            hold_until_probe_served: false,
            probes: 1,
            listen_check,
            crowd: 0,
            seed,
        })
        .boxed()
}

/// The unmodified Session::run in its own network namespace, once with port 6881 free and once with another program
/// already listening on it: whatever port the announce names must be one on which the client answers a handshake
/// with its own peer id. A client that refuses to start (or never announces) in the second situation claims nothing.
pub fn check_listen(c: &E2eCase) -> Outcome {
    confirmed(c, check_listen_once)
}

fn check_listen_once(c: &E2eCase) -> Outcome {
    let mut o = Outcome::new();
    o.nontrivial = true;
    let r = match run_child(c, Duration::from_secs(40)) {
        Ok(r) => r,
        Err(e) => {
            o.exclude("e2e-child-failed");
            let _ = e;
            return o;
        }
    };
    o.class_if(c.listen_check == 2, "port-6881-taken-by-another-program");
    match (r.announced_port, r.announced_port_answers) {
        (None, _) => {
            o.class("client-never-announced");
            if c.listen_check == 1 {
                o.fail("no-announce-although-port-free", format!("with port 6881 free the client never announced within 8 s (panics {:?})", r.panics));
            }
        }
        (Some(p), Some(true)) => {
            o.class("announced-port-answers");
            let _ = p;
        }
        (Some(p), _) => o.fail(
            "announced-port-is-not-the-clients-listening-port",
            format!("the announce said port={} but a BitTorrent handshake sent to 127.0.0.1:{} was not answered by the client (port 6881 {}); panics {:?}", p, p, if c.listen_check == 2 { "was taken by another program" } else { "was free" }, r.panics),
        ),
    }
    o
}

pub fn c18_listen_sub() -> Sub {
    Sub {
        name: "listen",
        cases: |t| t.pick(32, 160),
        run: |ctx| run_proptest_cfg(ctx, "listen", listen_strategy(), check_listen, 2),
        replay: |v| replay_case::<E2eCase>(v, check_listen),
        min_class: &[("port-6881-taken-by-another-program", 0.2), ("announced-port-answers", 0.2)],
    }
}

pub fn c19_faults_sub() -> Sub {
    Sub {
        name: "faults",
        cases: |t| t.pick(32, 300),
        run: |ctx| run_proptest_cfg(ctx, "faults", fault_strategy(ctx.tier), check_faults, 4),
        replay: |v| replay_case::<E2eCase>(v, check_faults),
        min_class: &[("conclusive", 0.5), (">=12-interesting-peers-connected-when-the-tracker-recovers", 0.03), (">=3-peers-leave-while-tracker-fails", 0.1)],
    }
}
