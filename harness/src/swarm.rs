//! Deterministic in-process swarm runtime (DESIGN.md section 2).
//!
//! Real `PeerHandler` tasks and the real `Session` manager logic run inside one `block_on` root future on a
//! current-thread tokio runtime with a paused clock. Remote peers are the harness ends of AF_UNIX socketpairs
//! whose other end is handed to the handler as a `tokio::net::TcpStream`.

use crate::engine::take_last_panic;
use crate::refmodel::geometry::Torrent;
use crate::refmodel::wire::{self, RFrame, Tail};
use rdest::verif::{PeerCmd, Status, VerifSnapshot};
use std::collections::VecDeque;
use std::future::Future;
use std::io::{Read, Write};
use std::os::unix::io::{FromRawFd, IntoRawFd};
use std::os::unix::net::UnixStream;
use std::pin::Pin;
use std::task::{Context, Poll};
use std::time::Duration;
use tokio::time::Instant;

pub const OWN_ID: [u8; 20] = *b"-VF0001-ownownownown";

pub type HFut = Pin<Box<dyn Future<Output = ()>>>;

pub struct Conn {
    pub addr: String,
    pub sock: Option<UnixStream>,
    fut: Option<HFut>,
    /// virtual time at which the handler task finished
    pub finished_at: Option<Duration>,
    pub handler_panic: Option<String>,
    /// reason the handler gave in its KillReq (seen when the manager handled it)
    pub kill_reason: Option<String>,
    /// virtual time at which the manager handled the KillReq
    pub killed_at: Option<Duration>,
    /// every byte the client wrote on this connection
    pub rx: Vec<u8>,
    parsed: usize,
    /// frames the client wrote: (virtual time the harness read them, frame)
    pub frames: Vec<(Duration, RFrame)>,
    taken: usize,
    out: VecDeque<u8>,
    /// client closed its end (EOF read by the harness)
    pub eof: bool,
    pub bytes_sent: usize,
    pub malformed_client_output: Option<String>,
}

#[derive(Clone, Debug)]
pub struct CmdRec {
    pub t: Duration,
    pub kind: &'static str,
    pub addr: String,
    pub piece: Option<usize>,
    /// statuses before the manager handled the command
    pub before: Vec<Status>,
    /// statuses after
    pub after: Vec<Status>,
    /// the peer's assigned piece before the command (manager view)
    pub peer_piece_before: Option<usize>,
    pub peer_piece_after: Option<usize>,
}

pub struct World {
    pub session: rdest::Session,
    pub conns: Vec<Conn>,
    pub cmds: Vec<CmdRec>,
    pub t0: Instant,
    /// the manager would have panicked / errored out of its event loop (production: process dies)
    pub manager_dead: Option<String>,
    pub watchdog: Option<String>,
    /// bumped by auxiliary futures (e.g. a bare Connection reader) so that the barrier sees their progress
    pub activity: std::rc::Rc<std::cell::Cell<u64>>,
    /// largest step of virtual time taken by advance_to between two drains of sockets and command queue
    pub max_step: Duration,
    /// commands taken from the manager's queue inside a poll and not yet handled
    pending: VecDeque<PeerCmd>,
    /// schedule control at manager-step granularity: close this connection (remote side) right after the manager has
    /// handled the next PieceDone - i.e. before the other tasks have seen the resulting broadcast
    pub close_on_piece_done: Option<usize>,
    /// connection tasks the scheduler does not run for the moment (a legal schedule: a task may be delayed arbitrarily)
    pub frozen: std::collections::BTreeSet<usize>,
    /// connections made from now on get a 4 KiB kernel send buffer on the client's end: a write of a 16 KiB message is
    /// then accepted in parts (as on any TCP connection to a slow or distant reader)
    pub small_sndbuf: bool,
    /// the manager task is not scheduled for the moment: commands stay in the session's real (bounded) channel, senders
    /// feel its back-pressure; nothing is answered until this is cleared again
    pub manager_stalled: bool,
    /// remote ends that do not read for the moment (a slow or stalled remote): what the client writes stays in the
    /// kernel's buffers, its writes block once they are full
    pub not_reading: std::collections::BTreeSet<usize>,
    next_peer: usize,
}

fn noop_drop<T>(_: T) {}

impl World {
    pub fn new(t: &Torrent) -> World {
        let m = t.metainfo().expect("swarm torrent must parse");
        World {
            session: rdest::Session::new(m, OWN_ID),
            conns: vec![],
            cmds: vec![],
            t0: Instant::now(),
            manager_dead: None,
            watchdog: None,
            activity: std::rc::Rc::new(std::cell::Cell::new(0)),
            max_step: Duration::from_secs(5),
            pending: VecDeque::new(),
            close_on_piece_done: None,
            frozen: std::collections::BTreeSet::new(),
            small_sndbuf: false,
            manager_stalled: false,
            not_reading: std::collections::BTreeSet::new(),
            next_peer: 0,
        }
    }

    /// Attach an arbitrary task that owns the client end of a fresh socketpair (used to drive a bare
    /// `Connection` without a handler). The manager does not know this connection.
    pub fn attach_raw(&mut self, make: impl FnOnce(tokio::net::TcpStream, String) -> HFut) -> usize {
        let k = self.next_peer;
        self.next_peer += 1;
        let addr = format!("10.9.{}.{}:{}", k / 250, k % 250 + 1, 20000 + k);
        let (ours, theirs) = UnixStream::pair().expect("socketpair");
        ours.set_nonblocking(true).unwrap();
        theirs.set_nonblocking(true).unwrap();
        let std_tcp = unsafe { std::net::TcpStream::from_raw_fd(theirs.into_raw_fd()) };
        let tcp = tokio::net::TcpStream::from_std(std_tcp).expect("from_std");
        let fut = make(tcp, addr.clone());
        self.conns.push(Conn {
            addr,
            sock: Some(ours),
            fut: Some(fut),
            finished_at: None,
            handler_panic: None,
            kill_reason: None,
            killed_at: None,
            rx: vec![],
            parsed: 0,
            frames: vec![],
            taken: 0,
            out: VecDeque::new(),
            eof: false,
            bytes_sent: 0,
            malformed_client_output: None,
        });
        self.conns.len() - 1
    }

    pub fn now(&self) -> Duration {
        Instant::now() - self.t0
    }

    pub fn snapshot(&self) -> VerifSnapshot {
        self.session.verif_snapshot()
    }

    /// Open a connection to the client. `expected_id`: Some(id) models an outgoing connection (the client
    /// dialled an address the tracker announced with that id; it sends its handshake first), None an
    /// incoming one (the client waits for the remote handshake).
    pub fn connect(&mut self, expected_id: Option<[u8; 20]>) -> usize {
        let k = self.next_peer;
        self.next_peer += 1;
        let addr = format!("10.9.{}.{}:{}", k / 250, k % 250 + 1, 20000 + k);
        let (ours, theirs) = UnixStream::pair().expect("socketpair");
        ours.set_nonblocking(true).unwrap();
        theirs.set_nonblocking(true).unwrap();
        if self.small_sndbuf {
            use std::os::unix::io::AsRawFd;
            let v: libc::c_int = 4096;
            unsafe {
                libc::setsockopt(theirs.as_raw_fd(), libc::SOL_SOCKET, libc::SO_SNDBUF, &v as *const _ as *const libc::c_void, std::mem::size_of::<libc::c_int>() as libc::socklen_t);
            }
        }
        let std_tcp = unsafe { std::net::TcpStream::from_raw_fd(theirs.into_raw_fd()) };
        let tcp = tokio::net::TcpStream::from_std(std_tcp).expect("from_std");
        self.session.verif_add_peer(&addr, expected_id);
        let mut handler = self.session.verif_new_handler(&addr, expected_id);
        let fut: HFut = Box::pin(async move {
            handler.run_outgoing(tcp).await;
        });
        self.conns.push(Conn {
            addr,
            sock: Some(ours),
            fut: Some(fut),
            finished_at: None,
            handler_panic: None,
            kill_reason: None,
            killed_at: None,
            rx: vec![],
            parsed: 0,
            frames: vec![],
            taken: 0,
            out: VecDeque::new(),
            eof: false,
            bytes_sent: 0,
            malformed_client_output: None,
        });
        self.conns.len() - 1
    }

    /// Queue bytes from the remote peer to the client.
    pub fn send(&mut self, c: usize, bytes: &[u8]) {
        self.conns[c].out.extend(bytes.iter().copied());
        self.flush_out();
    }

    pub fn send_frame(&mut self, c: usize, f: &RFrame) {
        let b = wire::encode(f);
        self.send(c, &b);
    }

    /// Remote peer closes the connection (after everything queued has been written).
    pub fn close(&mut self, c: usize) {
        self.flush_out();
        if let Some(s) = self.conns[c].sock.take() {
            // anything not accepted by the kernel yet is lost, as with a real close
            let _ = s.shutdown(std::net::Shutdown::Both);
            noop_drop(s);
        }
        self.conns[c].out.clear();
    }

    /// All queued bytes have been accepted by the kernel.
    pub fn all_sent(&self, c: usize) -> bool {
        self.conns[c].out.is_empty()
    }

    pub fn is_closed_by_us(&self, c: usize) -> bool {
        self.conns[c].sock.is_none()
    }

    pub fn handler_alive(&self, c: usize) -> bool {
        self.conns[c].fut.is_some()
    }

    fn flush_out(&mut self) -> bool {
        let mut progress = false;
        for conn in self.conns.iter_mut() {
            if conn.out.is_empty() {
                continue;
            }
            if let Some(sock) = conn.sock.as_mut() {
                loop {
                    let (a, _) = conn.out.as_slices();
                    if a.is_empty() {
                        break;
                    }
                    match sock.write(a) {
                        Ok(0) => break,
                        Ok(n) => {
                            conn.out.drain(..n);
                            conn.bytes_sent += n;
                            progress = true;
                        }
                        Err(e) if e.kind() == std::io::ErrorKind::WouldBlock => break,
                        Err(_) => {
                            // client side is gone
                            conn.out.clear();
                            break;
                        }
                    }
                }
            } else {
                conn.out.clear();
            }
        }
        progress
    }

    fn drain_sockets(&mut self) -> bool {
        let now = self.now();
        let mut progress = false;
        let not_reading = self.not_reading.clone();
        for (ci, conn) in self.conns.iter_mut().enumerate() {
            if not_reading.contains(&ci) {
                continue;
            }
            if let Some(sock) = conn.sock.as_mut() {
                let mut buf = [0u8; 65536];
                loop {
                    match sock.read(&mut buf) {
                        Ok(0) => {
                            if !conn.eof {
                                conn.eof = true;
                                progress = true;
                            }
                            break;
                        }
                        Ok(n) => {
                            conn.rx.extend_from_slice(&buf[..n]);
                            progress = true;
                        }
                        Err(e) if e.kind() == std::io::ErrorKind::WouldBlock => break,
                        Err(_) => {
                            if !conn.eof {
                                conn.eof = true;
                                progress = true;
                            }
                            break;
                        }
                    }
                }
            }
            // parse what is new
            if conn.parsed < conn.rx.len() && conn.malformed_client_output.is_none() {
                let d = wire::decode(&conn.rx[conn.parsed..]);
                let mut last = 0;
                for (f, end) in d.frames {
                    conn.frames.push((now, f));
                    last = end;
                }
                conn.parsed += last;
                match d.tail {
                    Tail::Error { why, .. } => conn.malformed_client_output = Some(why.to_string()),
                    Tail::Ambiguous { .. } => conn.malformed_client_output = Some("message with id 0x54".to_string()),
                    _ => {}
                }
            }
        }
        progress
    }

    /// Frames the client wrote on connection c since the previous call.
    pub fn take_frames(&mut self, c: usize) -> Vec<RFrame> {
        let conn = &mut self.conns[c];
        let v: Vec<RFrame> = conn.frames[conn.taken..].iter().map(|(_, f)| f.clone()).collect();
        conn.taken = conn.frames.len();
        v
    }

    fn poll_handlers(&mut self, cx: &mut Context<'_>) -> bool {
        let now = self.now();
        let mut completed = false;
        let frozen = self.frozen.clone();
        for (ci, conn) in self.conns.iter_mut().enumerate() {
            if frozen.contains(&ci) {
                continue;
            }
            if let Some(fut) = conn.fut.as_mut() {
                let r = std::panic::catch_unwind(std::panic::AssertUnwindSafe(|| fut.as_mut().poll(cx)));
                match r {
                    Ok(Poll::Pending) => {}
                    Ok(Poll::Ready(())) => {
                        conn.fut = None;
                        conn.finished_at = Some(now);
                        completed = true;
                    }
                    Err(_) => {
                        conn.fut = None;
                        conn.finished_at = Some(now);
                        conn.handler_panic = Some(take_last_panic().unwrap_or_else(|| "panic".into()));
                        completed = true;
                    }
                }
            }
        }
        completed
    }

    /// Poll the handlers together with `fut` until `fut` completes or a connection task has sent the manager a
    /// command (returns None then: the manager must answer at once, as the concurrently running manager task would).
    /// Returns (output if completed, some handler completed).
    async fn pump<T>(&mut self, fut: &mut Pin<Box<impl Future<Output = T>>>) -> (Option<T>, bool) {
        let mut completed = false;
        let out = std::future::poll_fn(|cx| {
            if self.poll_handlers(cx) {
                completed = true;
            }
            if !self.manager_stalled {
                while let Some(cmd) = self.session.verif_try_recv_peer_cmd() {
                    self.pending.push_back(cmd);
                }
                if !self.pending.is_empty() {
                    return Poll::Ready(None);
                }
            }
            match fut.as_mut().poll(cx) {
                Poll::Ready(v) => Poll::Ready(Some(v)),
                Poll::Pending => Poll::Pending,
            }
        })
        .await;
        (out, completed)
    }

    /// Sleep until `deadline` (virtual), polling handlers and answering manager commands the moment they are sent.
    /// Returns (some handler completed, some command was handled).
    async fn pump_until(&mut self, deadline: Instant) -> (bool, bool) {
        let mut completed = false;
        let mut cmds = false;
        loop {
            let mut s = Box::pin(tokio::time::sleep_until(deadline));
            let (out, c) = self.pump(&mut s).await;
            completed |= c;
            if self.drain_cmds().await {
                cmds = true;
            }
            if out.is_some() || self.manager_dead.is_some() {
                break;
            }
        }
        (completed, cmds)
    }

    async fn drain_cmds(&mut self) -> bool {
        let mut any = false;
        while self.manager_dead.is_none() && !self.manager_stalled {
            let cmd = match self.pending.pop_front().or_else(|| self.session.verif_try_recv_peer_cmd()) {
                Some(c) => c,
                None => break,
            };
            any = true;
            self.step_manager(cmd).await;
        }
        any
    }

    async fn step_manager(&mut self, cmd: PeerCmd) {
        let (kind, addr, piece): (&'static str, String, Option<usize>) = match &cmd {
            PeerCmd::Init { addr, .. } => ("Init", addr.clone(), None),
            PeerCmd::RecvChoke { addr } => ("RecvChoke", addr.clone(), None),
            PeerCmd::RecvUnchoke { addr, .. } => ("RecvUnchoke", addr.clone(), None),
            PeerCmd::RecvInterested { addr } => ("RecvInterested", addr.clone(), None),
            PeerCmd::RecvNotInterested { addr, .. } => ("RecvNotInterested", addr.clone(), None),
            PeerCmd::RecvHave { addr, piece_index, .. } => ("RecvHave", addr.clone(), Some(*piece_index)),
            PeerCmd::RecvBitfield { addr, .. } => ("RecvBitfield", addr.clone(), None),
            PeerCmd::RecvRequest { addr, piece_index, .. } => ("RecvRequest", addr.clone(), Some(*piece_index)),
            PeerCmd::PieceDone { addr, .. } => ("PieceDone", addr.clone(), None),
            PeerCmd::PieceCancel { addr, .. } => ("PieceCancel", addr.clone(), None),
            PeerCmd::SyncStats { addr, .. } => ("SyncStats", addr.clone(), None),
            PeerCmd::KillReq { addr, .. } => ("KillReq", addr.clone(), None),
        };
        let snap = self.session.verif_snapshot();
        let before = snap.statuses.clone();
        let peer_piece_before = snap.peers.iter().find(|p| p.addr == addr).and_then(|p| p.piece_index);
        let t = self.now();
        if let PeerCmd::KillReq { addr, reason } = &cmd {
            if let Some(c) = self.conns.iter_mut().find(|c| &c.addr == addr) {
                c.kill_reason = Some(reason.clone());
                c.killed_at = Some(t);
            }
            // the real handle_kill_req = kill_peer + (respawn / re-announce / extractor), which needs the network;
            // that branch is covered by the real-process layer
            let addr = addr.clone();
            let fut = self.session.verif_kill_peer(&addr);
            let r = CatchUnwind(Box::pin(fut)).await;
            if let Err(p) = r {
                self.manager_dead = Some(format!("manager panicked in kill_peer: {}", p));
            }
        } else {
            let fut = self.session.verif_handle_peer_cmd(cmd);
            match CatchUnwind(Box::pin(fut)).await {
                Ok(Ok(_)) => {}
                Ok(Err(e)) => {
                    // event_loop does .expect("Can't handle command") on this
                    self.manager_dead = Some(format!("manager error on {} from {}: {} (event loop expect()s)", kind, addr, e));
                }
                Err(p) => {
                    self.manager_dead = Some(format!("manager panicked on {} from {}: {}", kind, addr, p));
                }
            }
        }
        if kind == "PieceDone" {
            if let Some(c) = self.close_on_piece_done.take() {
                self.close(c);
            }
        }
        let snap_after = self.session.verif_snapshot();
        let peer_piece_after = snap_after.peers.iter().find(|p| p.addr == addr).and_then(|p| p.piece_index);
        let after = snap_after.statuses;
        self.cmds.push(CmdRec { t, kind, addr, piece, before, after, peer_piece_before, peer_piece_after });
    }

    /// One scheduler round: 1 ms of virtual time, handlers polled, sockets and command queue drained.
    async fn round(&mut self) -> bool {
        let act0 = self.activity.get();
        let mut active = self.flush_out();
        let deadline = Instant::now() + Duration::from_millis(1);
        let (completed, cmds) = self.pump_until(deadline).await;
        active |= completed | cmds;
        active |= self.drain_sockets();
        active |= self.drain_cmds().await;
        active |= self.flush_out();
        active |= self.activity.get() != act0;
        active
    }

    /// Poll every connection task once (without waiting for quiescence and without letting time pass), answer the
    /// manager commands they sent and read what they wrote. For schedules with a remote that never stops writing, where
    /// no quiescent state exists; the caller moves the clock itself (`tokio::time::advance`).
    pub async fn poll_once(&mut self) {
        self.poll_once_with_budget(128).await
    }

    /// Like `poll_once`, but the connection tasks get only `budget` units of tokio's cooperative-scheduling budget (a
    /// task has 128 per poll in production; every socket read that returns data costs one). A task whose socket always
    /// has more to read ends its poll when the budget is used up, not when the socket is empty; a small budget shows
    /// that situation with kilobytes instead of megabytes of traffic per poll.
    pub async fn poll_once_with_budget(&mut self, budget: u32) {
        for _ in budget.min(128)..128 {
            tokio::task::coop::consume_budget().await;
        }
        std::future::poll_fn(|cx| {
            self.poll_handlers(cx);
            Poll::Ready(())
        })
        .await;
        self.drain_cmds().await;
        self.drain_sockets();
        // give the cooperative-scheduling budget back: the next poll starts afresh
        tokio::task::yield_now().await;
    }

    /// Quiescence barrier: returns when three consecutive rounds saw no activity.
    pub async fn settle(&mut self) {
        let mut quiet = 0;
        let mut rounds = 0u32;
        while quiet < 3 {
            if self.round().await {
                quiet = 0;
            } else {
                quiet += 1;
            }
            rounds += 1;
            if rounds > 200_000 {
                self.watchdog = Some("settle: no quiescence after 200000 rounds".into());
                return;
            }
            if self.manager_dead.is_some() {
                return;
            }
        }
    }

    /// Let virtual time pass until `t` (since start), in steps of at most 5 s so that queues are drained, then settle.
    pub async fn advance_to(&mut self, t: Duration) {
        loop {
            let now = self.now();
            if now >= t || self.manager_dead.is_some() {
                break;
            }
            let step = std::cmp::min(t - now, self.max_step);
            let deadline = Instant::now() + step;
            let _ = self.pump_until(deadline).await;
            self.drain_sockets();
            self.drain_cmds().await;
            self.flush_out();
        }
        self.settle().await;
    }

    pub async fn advance_by(&mut self, d: Duration) {
        let t = self.now() + d;
        self.advance_to(t).await;
    }

    /// First fatal condition of the run, if any (manager death, handler panic, watchdog).
    pub fn fatal(&self) -> Option<(String, String)> {
        if let Some(m) = &self.manager_dead {
            return Some(("manager-dead".into(), m.clone()));
        }
        for c in &self.conns {
            if let Some(p) = &c.handler_panic {
                return Some(("handler-panic".into(), format!("connection task {} panicked: {}", c.addr, p)));
            }
        }
        None
    }
}

/// Future wrapper that turns a panic during poll into Err(message).
pub struct CatchUnwind<F>(pub Pin<Box<F>>);

impl<F: Future> Future for CatchUnwind<F> {
    type Output = Result<F::Output, String>;
    fn poll(mut self: Pin<&mut Self>, cx: &mut Context<'_>) -> Poll<Self::Output> {
        let inner = &mut self.0;
        match std::panic::catch_unwind(std::panic::AssertUnwindSafe(|| inner.as_mut().poll(cx))) {
            Ok(Poll::Pending) => Poll::Pending,
            Ok(Poll::Ready(v)) => Poll::Ready(Ok(v)),
            Err(_) => Poll::Ready(Err(take_last_panic().unwrap_or_else(|| "panic".into()))),
        }
    }
}

/// Run one scenario on a fresh current-thread runtime with a paused clock. The working directory must already be
/// the case's private directory (piece files are written relative to it).
pub fn run<T>(seed: u64, t: &Torrent, f: impl for<'a> FnOnce(&'a mut World) -> Pin<Box<dyn Future<Output = T> + 'a>>) -> Result<T, String> {
    let mut b = tokio::runtime::Builder::new_current_thread();
    b.enable_all().start_paused(true);
    let mut seed_bytes = [0u8; 32];
    seed_bytes[..8].copy_from_slice(&seed.to_le_bytes());
    b.rng_seed(tokio::runtime::RngSeed::from_bytes(&seed_bytes));
    let rt = b.build().expect("runtime");
    let res = std::panic::catch_unwind(std::panic::AssertUnwindSafe(|| {
        rt.block_on(async {
            let mut w = World::new(t);
            let out = f(&mut w).await;
            // drop handlers and sockets inside the runtime
            drop(w);
            out
        })
    }));
    drop(rt);
    match res {
        Ok(v) => Ok(v),
        Err(_) => Err(take_last_panic().unwrap_or_else(|| "panic".into())),
    }
}

// ------------------------------------------------------------------ scripted-peer helpers

/// What a remote peer knows from the frames the client wrote to it.
#[derive(Clone, Debug, Default)]
pub struct PeerView {
    pub got_handshake: Option<([u8; 20], [u8; 20])>,
    pub got_bitfield: Option<Vec<u8>>,
    pub haves: Vec<u32>,
    /// client -> us: Choke/Unchoke state (true = the client chokes us)
    pub client_chokes_us: bool,
    pub client_interested: bool,
    /// requests read from the client and not yet answered or cancelled
    pub outstanding: VecDeque<(u32, u32, u32)>,
    pub all_requests: Vec<(u32, u32, u32)>,
    pub cancels: Vec<(u32, u32, u32)>,
    /// requests that were outstanding when the client cancelled them (a real peer may already have the answer in flight)
    pub cancelled_pending: VecDeque<(u32, u32, u32)>,
    pub pieces_received: Vec<(u32, u32, usize)>,
    pub keepalives: usize,
}

impl PeerView {
    pub fn new() -> PeerView {
        PeerView { client_chokes_us: true, ..Default::default() }
    }
    pub fn absorb(&mut self, frames: &[RFrame]) {
        for f in frames {
            match f {
                RFrame::Handshake { info_hash, peer_id, .. } => self.got_handshake = Some((*info_hash, *peer_id)),
                RFrame::Bitfield(b) => self.got_bitfield = Some(b.clone()),
                RFrame::Have(i) => self.haves.push(*i),
                RFrame::Choke => self.client_chokes_us = true,
                RFrame::Unchoke => self.client_chokes_us = false,
                RFrame::Interested => self.client_interested = true,
                RFrame::NotInterested => self.client_interested = false,
                RFrame::Request(i, b, l) => {
                    self.outstanding.push_back((*i, *b, *l));
                    self.all_requests.push((*i, *b, *l));
                }
                RFrame::Cancel(i, b, l) => {
                    self.cancels.push((*i, *b, *l));
                    if self.outstanding.contains(&(*i, *b, *l)) {
                        self.cancelled_pending.push_back((*i, *b, *l));
                    }
                    self.outstanding.retain(|r| r != &(*i, *b, *l));
                }
                RFrame::Piece(i, b, d) => self.pieces_received.push((*i, *b, d.len())),
                RFrame::KeepAlive => self.keepalives += 1,
                RFrame::Unknown(..) => {}
            }
        }
    }
}

/// `*.piece` files in the current directory: (file name, content)
pub fn piece_files() -> Vec<(String, Vec<u8>)> {
    let mut v = vec![];
    if let Ok(rd) = std::fs::read_dir(".") {
        for e in rd.flatten() {
            let name = e.file_name().to_string_lossy().to_string();
            if name.ends_with(".piece") {
                v.push((name, std::fs::read(e.path()).unwrap_or_default()));
            }
        }
    }
    v.sort();
    v
}
