//! Scripted remote peers on top of the swarm runtime, shared by the session-level checks (C01, C02, C08, C09, C11, C12).

use crate::refmodel::geometry::Torrent;
use crate::refmodel::wire::{self, RFrame};
use crate::swarm::{PeerView, World};
use std::collections::BTreeSet;

pub struct RemotePeer {
    pub conn: usize,
    pub addr: String,
    pub id: [u8; 20],
    pub view: PeerView,
    /// what this peer has told the client it has (bitfield + haves), as sent and settled
    pub advertised: Vec<bool>,
    /// what the client should currently believe this peer has: the latest bitfield (a repeated one replaces the
    /// earlier picture) plus every Have since
    pub client_view: Vec<bool>,
    pub sent_handshake: bool,
    pub sent_bitfield: bool,
    /// last Choke/Unchoke this peer sent (true = it chokes the client); initial state: choking
    pub chokes_client: bool,
    pub interested_in_client: bool,
    pub closed: bool,
    /// Request frames (piece indices) the client wrote since the manager's latest assignment for this peer
    pub requested_since_assignment: BTreeSet<u32>,
    /// every frame the client wrote to this peer, with the index of the observation (barrier) it was read at
    pub log: Vec<(usize, RFrame)>,
}

pub struct Net {
    pub t: Torrent,
    pub peers: Vec<RemotePeer>,
    pub cmds_seen: usize,
    pub barrier_no: usize,
}

impl Net {
    pub fn new(t: &Torrent) -> Net {
        Net { t: t.clone(), peers: vec![], cmds_seen: 0, barrier_no: 0 }
    }

    /// Connect a new remote peer (incoming connection from the client's point of view unless `outgoing`).
    pub fn connect(&mut self, w: &mut World, outgoing: bool) -> usize {
        let k = self.peers.len();
        let mut id = [b'A' + (k % 26) as u8; 20];
        id[0] = b'-';
        let conn = w.connect(if outgoing { Some(id) } else { None });
        let n = self.t.geo.pieces_num();
        self.peers.push(RemotePeer {
            conn,
            addr: w.conns[conn].addr.clone(),
            id,
            view: PeerView::new(),
            advertised: vec![false; n],
            client_view: vec![false; n],
            sent_handshake: false,
            sent_bitfield: false,
            chokes_client: true,
            interested_in_client: false,
            closed: false,
            requested_since_assignment: BTreeSet::new(),
            log: vec![],
        });
        k
    }

    pub fn alive(&self, w: &World, p: usize) -> bool {
        !self.peers[p].closed && w.handler_alive(self.peers[p].conn)
    }

    pub fn handshake(&mut self, w: &mut World, p: usize) {
        let ih = self.t.info_hash();
        let f = RFrame::handshake(ih, self.peers[p].id);
        w.send_frame(self.peers[p].conn, &f);
        self.peers[p].sent_handshake = true;
    }

    pub fn bitfield(&mut self, w: &mut World, p: usize, bits: &[bool]) {
        w.send_frame(self.peers[p].conn, &RFrame::Bitfield(wire::bits_to_bytes(bits)));
        self.peers[p].advertised = bits.to_vec();
        self.peers[p].client_view = bits.to_vec();
        self.peers[p].sent_bitfield = true;
    }

    pub fn have(&mut self, w: &mut World, p: usize, i: usize) {
        w.send_frame(self.peers[p].conn, &RFrame::Have(i as u32));
        self.peers[p].advertised[i] = true;
        self.peers[p].client_view[i] = true;
    }

    pub fn choke(&mut self, w: &mut World, p: usize) {
        w.send_frame(self.peers[p].conn, &RFrame::Choke);
        self.peers[p].chokes_client = true;
        // a choking peer discards the requests it has queued
        self.peers[p].view.outstanding.clear();
    }

    pub fn unchoke(&mut self, w: &mut World, p: usize) {
        w.send_frame(self.peers[p].conn, &RFrame::Unchoke);
        self.peers[p].chokes_client = false;
    }

    pub fn interested(&mut self, w: &mut World, p: usize, yes: bool) {
        w.send_frame(self.peers[p].conn, &if yes { RFrame::Interested } else { RFrame::NotInterested });
        self.peers[p].interested_in_client = yes;
    }

    /// Send the correct bytes for one outstanding request (FIFO position k). Returns the request served.
    pub fn answer(&mut self, w: &mut World, p: usize, k: usize) -> Option<(u32, u32, u32)> {
        let peer = &mut self.peers[p];
        if k >= peer.view.outstanding.len() {
            return None;
        }
        let (i, b, l) = peer.view.outstanding.remove(k).unwrap();
        let piece = self.t.piece(i as usize);
        let end = ((b as usize) + (l as usize)).min(piece.len());
        let data = if (b as usize) <= end { piece[b as usize..end].to_vec() } else { vec![] };
        w.send_frame(peer.conn, &RFrame::Piece(i, b, data));
        Some((i, b, l))
    }

    pub fn disconnect(&mut self, w: &mut World, p: usize) {
        w.close(self.peers[p].conn);
        self.peers[p].closed = true;
    }

    /// Barrier + fold what the client wrote into each peer's view. Call after every op.
    pub async fn observe(&mut self, w: &mut World) {
        w.settle().await;
        self.fold(w);
    }

    pub fn fold(&mut self, w: &mut World) {
        self.barrier_no += 1;
        // assignment events reset the per-peer request set
        for cr in &w.cmds[self.cmds_seen..] {
            if matches!(cr.kind, "RecvUnchoke" | "RecvHave" | "PieceDone" | "PieceCancel") {
                let assigned = match cr.kind {
                    "RecvHave" => cr.peer_piece_before.is_none() && cr.peer_piece_after.is_some(),
                    _ => true,
                };
                if assigned {
                    if let Some(p) = self.peers.iter_mut().find(|p| p.addr == cr.addr) {
                        p.requested_since_assignment.clear();
                    }
                }
            }
        }
        self.cmds_seen = w.cmds.len();
        for p in self.peers.iter_mut() {
            let frames = w.take_frames(p.conn);
            p.view.absorb(&frames);
            for f in frames {
                if let RFrame::Request(i, _, _) = &f {
                    p.requested_since_assignment.insert(*i);
                }
                p.log.push((self.barrier_no, f));
            }
        }
    }
}

/// An honest set-up peer joins, serves the given pieces until the client owns them, then disconnects.
/// Returns true when every requested piece is Have.
pub async fn seed_pieces(w: &mut World, net: &mut Net, bits: &[bool]) -> bool {
    use rdest::verif::Status;
    if !bits.iter().any(|b| *b) {
        return true;
    }
    let s = net.connect(w, false);
    net.handshake(w, s);
    net.bitfield(w, s, bits);
    net.observe(w).await;
    net.unchoke(w, s);
    net.observe(w).await;
    let mut guard = 0;
    loop {
        let snap = w.snapshot();
        let done = bits.iter().enumerate().all(|(i, b)| !*b || snap.statuses[i] == Status::Have);
        if done {
            break;
        }
        if !net.alive(w, s) || w.fatal().is_some() || guard > 4000 {
            return false;
        }
        guard += 1;
        if net.answer(w, s, 0).is_none() {
            // nothing outstanding: give the client a moment
            w.advance_by(std::time::Duration::from_millis(200)).await;
            net.fold(w);
            if guard > 200 && net.peers[s].view.outstanding.is_empty() {
                return false;
            }
            continue;
        }
        net.observe(w).await;
    }
    if net.alive(w, s) {
        net.disconnect(w, s);
        net.observe(w).await;
    }
    true
}
