#!/usr/bin/env python3
"""Regenerates /verif/MANIFEST.json from the table below (kept in one place so it stays valid)."""
import json, subprocess

HOOK_COMMITS = subprocess.run(
    ["git", "-C", "/repo", "log", "--format=%h %s", "--grep=^verif hooks"],
    capture_output=True, text=True).stdout.strip().splitlines()

CHECKS = {
 "C01": dict(
   technique="stateful property-based testing (proptest action schedules + interpreter) against the real connection tasks and manager on a deterministic swarm runtime; invariants over disk, manager snapshot and wire after every step",
   text="Up to 3 adversarial scripted peers (corrupt, mis-offset, mis-indexed, truncated, extended, duplicate, stale and unrequested blocks; chokes, disconnects, own requests) over generated geometries; after every barrier every stored file must hash to its name and be a listed piece of the right length, every Have status / Have message / bitfield bit / served block must refer to a piece verified on disk, reservations must be backed by live fetchers; finally an honest peer must complete the download and the real Extractor must reproduce the content.",
   note="Trusted: swarm runtime (tokio paused clock, AF_UNIX socketpairs posing as TcpStream), reference wire decoder, sha1_smol. Observation granularity = quiescence barrier. KillReq is stepped as kill_peer only.",
   design="6/C01"),
 "C02": dict(
   technique="stateful property-based testing on the deterministic swarm runtime (virtual time, generated segmentation and schedules) + generated real-process end-to-end runs of unmodified Session::run() in private network namespaces",
   text="Layer 1: generated honest swarms (1-4 peers, piece subsets, unchoke delays, late Haves, keep-alives, unknown messages, chokes, non-essential disconnects, every message possibly cut anywhere) must lead to all pieces Have within 60 virtual minutes, never 200 virtual seconds of standstill while an unchoking honest peer offers a missing piece (hang), no panic, no honest connection ended with an error, byte-identical extracted files. Layer 2: the unmodified client in a real process with a fake HTTP tracker (optionally failing first) and honest fake peers must write identical output files (healthy ~1 s, deadline 60 s, one confirming re-run).",
   note="Liveness decided up to the stated horizons. A dropped essential peer is reconnected by the harness (as a tracker would hand it out again). Layer 2 uses real time and unshare(CLONE_NEWNET); a child killed by the watchdog is inconclusive (exit 2), never a violation.",
   design="6/C02"),
 "C03": dict(
   technique="property-based testing (proptest) + exhaustive enumeration of small layouts; oracle = reference torrent geometry and byte-for-byte file comparison on the real filesystem",
   text="Real Extractor run on harness-written piece files for generated geometries (piece length 1..64 and 16 KiB neighbours, 0-8 files of length 0..3x piece length at nested paths, single/multi-file form) plus complete enumeration of all layouts with piece length 1..4, <=3 files, lengths 0..6. Checks the piece-length partition and that every listed file has exactly its declared bytes, nothing else is created.",
   note="Trusted: reference geometry (harness/src/refmodel/geometry.rs), sha1_smol, the local filesystem. `path` entries are byte strings (rdest's reader).",
   design="6/C03"),
 "C04": dict(
   technique="property-based testing (proptest) over hostile name/path strings with a filesystem-watching oracle (recursive listing outside the download directory before/after)",
   text="Hostile name/path strings from a component alphabet (.., ., empty, plain, ..x, x.., absolute, //) for single- and multi-file torrents; the real Extractor runs three levels below a private root whose whole tree outside the cwd (plus a canary directory that absolute paths point to) must be unchanged; for plain multi-file names everything must land in ./name/. Refusal and neutralisation both pass.",
   note="`..` per path capped at the cwd depth below the private root so every escape lands where the oracle looks. Symlinks pre-existing in the download directory are out of scope.",
   design="6/C04"),
 "C05": dict(
   technique="property-based testing (proptest) with a span-tracking document writer; oracle = SHA-1 of the exact top-level info span, cross-checked by an independent bencode parser; libFuzzer target fz_metainfo with the same oracle (thorough)",
   text="Generated metainfo documents with extra keys before/after info (also out of order), nested dictionaries containing keys spelled info at depth 1-3, rotated key order inside info, leading-zero string lengths, trailing values; whenever rdest accepts, info_hash() must equal SHA-1(doc[span]).",
   note="Exactly one top-level info key, nothing before the top-level dictionary. Trusted: reference parser/writer, sha1_smol.",
   design="6/C05"),
 "C06": dict(
   technique="property-based testing (proptest) of the real Connection::recv_frame over socketpairs with generated streams and cut lists, differential against an independent reference stream decoder on every prefix; task-level variant on the swarm runtime; libFuzzer target fz_frames (thorough)",
   text="Streams of valid messages, unknown ids, wrong fixed lengths, oversized prefixes with filler, garbage, truncation and EOF, cut at generated positions; after every delivered segment the frames returned must equal the reference decoding of the bytes delivered so far (complete-but-undelivered messages and cut-dependence both fail), malformed frames must be rejected within their declared extent, EOF handled, buffer <= 4+65536, no panic. Task level: after such a fault the connection task must report KillReq within the same barrier, not via the keep-alive timer.",
   note="Id 0x54 messages excluded (ambiguous with the handshake for this decoder). Kernel AF_UNIX delivery is synchronous.",
   design="6/C06"),
 "C07": dict(
   technique="property-based testing (proptest): differential against an independent BEP3 writer + parse round-trip + bitfield bit-mapping model",
   text="For each of the 11 message kinds with fields over the full u32 range (edge-biased), blocks up to 65527 bytes, arbitrary hashes/ids and bit vectors up to 2000 bits: emitted bytes == reference BEP3 layout, Frame::parse(data++suffix) yields the same message and consumes exactly its length, re-serialisation identity, Handshake::validate accepts exactly its own hash/id, Bitfield to_vec/from_vec/validate agree with the reference for neighbouring piece counts.",
   note="Trusted: reference writer/decoder in harness/src/refmodel/wire.rs.",
   design="6/C07"),
 "C08": dict(
   technique="stateful property-based testing (proptest message scripts) against the real connection task and manager on the swarm runtime; oracle over bytes written, KillReq and manager snapshot",
   text="After a real download of 3 of 4 pieces, a connection (incoming or outgoing) receives generated scripts of handshakes (right/wrong protocol string, hash one bit off/random, expected/foreign id; first, late, repeated, absent) mixed with other traffic and requests: after a foreign handshake nothing more is written, the task ends, the peer is forgotten; own handshake exact, once, first; incoming connections get nothing but keep-alives before a valid handshake; never piece data before a valid handshake.",
   note="After a malformed protocol string only the 'nothing before a valid handshake' clauses are asserted.",
   design="6/C08"),
 "C09": dict(
   technique="stateful property-based testing (proptest request histories incl. the manager's real choke rotation) on the swarm runtime; oracle matches every Piece frame to a prior request and to the stored bytes; coverage-guided libFuzzer campaign over the same histories (target fz_hist: hand-written byte decoder, the check's own oracle inside the target; thorough)",
   text="Edge-biased (index, begin, length) triples over u32^3 (wrapping sums, exact/one-beyond piece end, 0/16384/16385 lengths, unowned and out-of-range pieces, piece switching) interleaved with interest changes and real rotations that make the client choke/unchoke the peer: every Piece answers exactly one prior request with exactly the stored bytes, <=16 KiB, inside an owned piece, requested while unchoked; no panic.",
   note="Requests are sent after a barrier so 'the client's last word' is unambiguous.",
   design="6/C09"),
 "C10": dict(
   technique="stateful property-based testing (proptest answer disciplines) on the swarm runtime; oracle = reference tiling per assignment epoch plus an exact acceptance model (one block per barrier); coverage-guided libFuzzer campaign over the same histories (target fz_hist: hand-written byte decoder, the check's own oracle inside the target; thorough)",
   text="One honest-content peer answers in generated order, duplicates, withholds, chokes/unchokes, announces late, over piece lengths around multiples of 16 KiB and shorter last pieces: every request is a block of the reference tiling, <=16 KiB, never repeated within an assignment, only for advertised pieces; an accepted block is followed by exactly one request while blocks remain; a piece is complete exactly when its last outstanding block has arrived.",
   note="Block order within a piece is not asserted.",
   design="6/C10"),
 "C11": dict(
   technique="stateful property-based testing (proptest global schedules over suppliers and observers) on the swarm runtime; oracle from the manager's handled completion order (A) and the verified disk state (D); coverage-guided libFuzzer campaign over the same histories (target fz_hist: hand-written byte decoder, the check's own oracle inside the target; thorough)",
   text="Suppliers complete pieces (some corrupt) while observers handshake, choke and unchoke at generated points, also racing with completions inside one barrier: bitfields satisfy A(at Init) <= bits <= D with zero spare bits, every Have(i) has i verified on disk, Haves for completions after the observer's Init arrive in completion order and none is missing whenever the observer is not choking the client. Observer tasks may be left unscheduled while 2-64 pieces complete: a loss after a lag of more than 31 broadcasts is the known finding (KNOWN-FINDING, exit 0), a loss after a smaller lag a violation.",
   note="Known finding: a task lagging more than 32 broadcasts loses announcements (tokio broadcast channel of 32, Lagged ignored). D sampled at barriers (monotone).",
   design="6/C11"),
 "C12": dict(
   technique="stateful property-based testing (proptest histories of wire events over up to 5 scripted peers, scenario templates for deep states) through the real connection tasks and manager; invariants after every barrier; committed corpus replay; coverage-guided libFuzzer campaign over the same histories (target fz_hist: hand-written byte decoder, the check's own oracle inside the target; thorough)",
   text="Histories of join/have/choke/unchoke(x2)/interest/deliver/disconnect over 3-16 single-block pieces: Have monotone; every Reserved piece is assigned to a connected, non-choking peer that has been asked for it in its current assignment; requests only for advertised, lacked pieces; no manager/task panic; an honest seeder can always finish the download.",
   note="Only command sequences real tasks can emit reach the manager (driven through the wire). One-directional reservation invariant, as the statement.",
   design="6/C12"),
 "C13": dict(
   technique="property-based testing (proptest) on constructed manager states; oracle = validity predicate (rarest-first among candidates) that any tie-break must satisfy; the wire-driven histories of C12 judged by this property's clauses (proptest + coverage-guided libFuzzer campaign fz_hist in the thorough tier)",
   text="Generated status vectors over 1-39 pieces (rarely 1023-4000, or 65537-80000 so that piece indices exceed 16 bits; missing count forced to 9/10/11 among others, Reserved mixed in) and 1-6 peers with generated advertised sets; the real choose_piece_index is called 8x per state; the pick must be a candidate of minimal availability, None iff no candidate.",
   note="States are constructed through set-up hooks; rdest's shuffle is unseeded, hence a validity predicate rather than one expected answer.",
   design="6/C13"),
 "C14": dict(
   technique="stateful property-based testing (proptest op sequences + interpreter) stepping the real manager; invariants checked after every step against a reference reading of the choking policy",
   text="Histories of up to 120 manager commands over up to 25 peers, leeching and seeding, fed to the real handle_peer_cmd / rotation; after every step: <=11 unchoked, <=10 non-optimistic unchoked, each peer's folded view == am_choked; after every executed rotation: slot holders interested, no better-rated interested peer choked, uninterested peers choked.",
   note="Command-level driving is sound because every command used can be emitted by a connection task at any time. Rate used for ranking follows the manager's documented choice.",
   design="6/C14"),
 "C15": dict(
   technique="property-based testing (proptest): round-trip + differential against an independent canonical bencode writer",
   text="Generated-value search (i64 edge bias, delimiter-rich strings, depth 5) against three oracles: encoder == independent canonical writer, decode(encode(v)) == v incl. concatenations, encode(decode(canonical)) == doc.",
   note="Trusted: reference writer/parser in harness/src/refmodel/bencode.rs, proptest. Dictionary keys unique (BValue::Dict is a HashMap).",
   design="6/C15"),
 "C16": dict(
   technique="exhaustive enumeration over a delimiter alphabet + mutation-based property testing, differential against an independent recursive-descent recogniser; libFuzzer target fz_bdecode with the same oracle (thorough)",
   text="Complete enumeration of all strings over {0,1,2,:,i,l,d,e,-,a} up to length 8 (quick, 111M strings) / 10 (thorough) plus mutated valid documents; rdest must accept exactly the recogniser's language with matching values and never panic. Deep nestings (100 to 1,000,000 levels) are decoded in a child process. Two known findings (unterminated container at EOF, pinned by a baseline test; stack overflow on nesting deeper than 5000 levels) are recognised by signature and reported as KNOWN-FINDING; everything else is a violation.",
   note="Trusted: the reference recogniser. Numbers outside i64/usize are out of the stated domain (skipped, counted).",
   design="6/C16"),
 "C17": dict(
   technique="property-based testing (proptest): model-based generation of metainfo documents (faithfulness), mutation testing for totality, create/parse round trip on real files; libFuzzer target fz_metainfo (thorough)",
   text="Three generated sub-checks: (faithful) model torrents with edge numeric fields and rotated key order must read back field by field and every accessor must be panic-free for every valid index (overflow checks on); (totality) mutated/arbitrary bytes never panic; (create) create_file on generated files then from_file gives name, length, ceil(len/256KiB) SHA-1s, announce.",
   note="`path` entries are byte strings; numeric fields non-negative in the faithful sub-check.",
   design="6/C17"),
 "C18": dict(
   technique="property-based testing (proptest): metamorphic/decoding oracle on the announce URL (independent form-urlencoded decoder) + real TrackerClient against a loopback HTTP listener + generated real-process runs of unmodified Session::run() in private network namespaces (announced port = listening port)",
   text="Random 20-byte info-hashes steered to contain special bytes, alphanumeric ids, announce URLs with/without port, path, existing query or trailing '?'; the URL built by the client and the request line actually received by a loopback listener must keep host/path/existing parameters and carry exactly one info_hash decoding to the hash, plus peer_id, port, left.",
   note="Peer ids alphanumeric (property's domain). reqwest/hyper are part of the system under test on the wire sub-check.",
   design="6/C18"),
 "C19": dict(
   technique="property-based testing (proptest): model-based generation of tracker replies with malformed entries, mutation testing for totality; libFuzzer target fz_tracker_resp (thorough); TrackerClient::run under a paused clock against a failing loopback tracker (outages of up to 400 announces); generated real-process fault runs",
   text="Model replies with 0-30 entries mixing well-formed and malformed peers, extra keys, rotated order, failure reasons, trailing values: peers() must be exactly the well-formed entries in order, failure reasons must be reported as errors, nothing panics. The tracker fault-sequence half (sub faults) runs unmodified Session::run in a real process.",
   note="Ports > 65535 and non-UTF-8 failure reasons not generated (unspecified).",
   design="6/C19"),
 "C20": dict(
   technique="property-based testing (proptest arrival schedules) on the swarm runtime under tokio's paused clock; oracle = small reference reading of the keep-alive statement with an unasserted gap; a deterministic keep-alive flood schedule (cooperative-budget-limited polls); coverage-guided libFuzzer campaign over the same histories (target fz_hist: hand-written byte decoder, the check's own oracle inside the target; thorough)",
   text="Arrival schedules around the 120 s ticks (119.9/120.1/239/241/359/361 s ...), nine message kinds, lively and silent phases, with or without a reserved piece: closed by last-other-message+360 s with peer state and reservation released; never closed for inactivity while gaps stay < 120 s; exactly one keep-alive per 120 s tick while alive.",
   note="Virtual time; arrivals within 0.3 s of a client tick are moved (select! coin). Silences of 120-360 s and unknown-id messages unasserted.",
   design="6/C20"),
}

def main():
    checks = []
    for pid in sorted(CHECKS):
        c = CHECKS[pid]
        checks.append({
            "property_id": pid,
            "quick_cmd": f"./check {pid} quick",
            "thorough_cmd": f"./check {pid} thorough",
            "evidence_file": f"/verif/evidence/{pid}.json",
            "replay_cmd_template": f"./check {pid} --replay {{path}}",
            "engine": "vcheck",
            "level_claimed": {"category": "exploration", "text": c["text"], "design_ref": f"DESIGN.md section {c['design']}"},
            "level_note": c["note"],
            "technique": c["technique"],
        })
    all_ids = [f"C{i:02d}" for i in range(1, 21)]
    na = [{"property_id": i, "reason": "check not built yet in this revision of /verif (planned, see DESIGN.md section 6); claimed once its check exists and is silent on the unchanged tree"} for i in all_ids if i not in CHECKS]
    m = {
        "version": 1,
        "setup_cmd": "cd /verif/harness && CARGO_NET_OFFLINE=true cargo build --bin vcheck",
        "hooks": {
            "guard": "--cfg rdest_verif",
            "enable": "RUSTFLAGS='--cfg rdest_verif --cfg tokio_unstable' via /verif/harness/.cargo/config.toml; the harness depends on rdest by path=/repo, so every ./check rebuilds from /repo's working tree",
            "baseline_off_cmd": "cd /repo && cargo test --workspace --no-fail-fast --offline --tests",
            "source_commits": [l.split()[0] for l in HOOK_COMMITS],
            "add_only": True,
        },
        "engines": [
            {"name": "vcheck", "path": "/verif/harness", "serves_properties": sorted(CHECKS), "kind_free_text": "proptest-driven property checks (16 worker processes), reference models, deterministic in-process swarm runtime on tokio's paused clock, real-process e2e runner"},
        ],
        "checks": checks,
        "not_applicable": na,
        "notes": "Exit codes of every check: 0 held, 1 violation (VIOLATION line + replay file), 2 inconclusive (build failure, watchdog, vacuous generator) - never reported as a violation. Known findings: /verif/known_findings.json.",
    }
    json.dump(m, open("/verif/MANIFEST.json", "w"), indent=1)
    print("wrote MANIFEST.json with", len(checks), "checks")

main()