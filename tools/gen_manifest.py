#!/usr/bin/env python3
"""Regenerates /verif/MANIFEST.json from the table below (kept in one place so it stays valid)."""
import json, subprocess

HOOK_COMMITS = subprocess.run(
    ["git", "-C", "/repo", "log", "--format=%h %s", "--grep=^verif hooks"],
    capture_output=True, text=True).stdout.strip().splitlines()

CHECKS = {
 "C03": dict(
   technique="property-based testing (proptest) + exhaustive enumeration of small layouts; oracle = reference torrent geometry and byte-for-byte file comparison on the real filesystem",
   text="Real Extractor run on harness-written piece files for generated geometries (piece length 1..64 and 16 KiB neighbours, 0-8 files of length 0..3x piece length at nested paths, single/multi-file form) plus complete enumeration of all layouts with piece length 1..4, <=3 files, lengths 0..6. Checks the piece-length partition and that every listed file has exactly its declared bytes, nothing else is created.",
   note="Trusted: reference geometry (harness/src/refmodel/geometry.rs), sha1_smol, the local filesystem. `path` entries are byte strings (rdest's reader).",
   design="6/C03"),
 "C04": dict(
   technique="property-based testing (proptest) over hostile name/path strings with a filesystem-watching oracle (recursive listing outside the download directory before/after)",
   text="Hostile name/path strings from a component alphabet (.., ., empty, plain, ..x, x.., absolute, //) for single- and multi-file torrents; the real Extractor runs three levels below a private root whose whole tree outside the cwd (plus a canary directory that absolute paths point to) must be unchanged; for plain multi-file names everything must land in ./name/. Refusal and neutralisation both pass.",
   note="`..` per path capped at the cwd depth below the private root so every escape lands where the oracle looks. Symlinks pre-existing in the download directory are out of scope.",
   design="6/C04"),
 "C05": dict(
   technique="property-based testing (proptest) with a span-tracking document writer; oracle = SHA-1 of the exact top-level info span, cross-checked by an independent bencode parser; libFuzzer target fz_metainfo with the same oracle (thorough)",
   text="Generated metainfo documents with extra keys before/after info (also out of order), nested dictionaries containing keys spelled info at depth 1-3, rotated key order inside info, leading-zero string lengths, trailing values; whenever rdest accepts, info_hash() must equal SHA-1(doc[span]).",
   note="Exactly one top-level info key, nothing before the top-level dictionary. Trusted: reference parser/writer, sha1_smol.",
   design="6/C05"),
 "C07": dict(
   technique="property-based testing (proptest): differential against an independent BEP3 writer + parse round-trip + bitfield bit-mapping model",
   text="For each of the 11 message kinds with fields over the full u32 range (edge-biased), blocks up to 65527 bytes, arbitrary hashes/ids and bit vectors up to 2000 bits: emitted bytes == reference BEP3 layout, Frame::parse(data++suffix) yields the same message and consumes exactly its length, re-serialisation identity, Handshake::validate accepts exactly its own hash/id, Bitfield to_vec/from_vec/validate agree with the reference for neighbouring piece counts.",
   note="Trusted: reference writer/decoder in harness/src/refmodel/wire.rs.",
   design="6/C07"),
 "C13": dict(
   technique="property-based testing (proptest) on constructed manager states; oracle = validity predicate (rarest-first among candidates) that any tie-break must satisfy",
   text="Generated status vectors (missing count forced to 9/10/11 among others, Reserved mixed in) and 1-6 peers with generated advertised sets; the real choose_piece_index is called 8x per state; the pick must be a candidate of minimal availability, None iff no candidate.",
   note="States are constructed through set-up hooks; rdest's shuffle is unseeded, hence a validity predicate rather than one expected answer.",
   design="6/C13"),
 "C14": dict(
   technique="stateful property-based testing (proptest op sequences + interpreter) stepping the real manager; invariants checked after every step against a reference reading of the choking policy",
   text="Histories of up to 120 manager commands over up to 25 peers, leeching and seeding, fed to the real handle_peer_cmd / rotation; after every step: <=11 unchoked, <=10 non-optimistic unchoked, each peer's folded view == am_choked; after every executed rotation: slot holders interested, no better-rated interested peer choked, uninterested peers choked.",
   note="Command-level driving is sound because every command used can be emitted by a connection task at any time. Rate used for ranking follows the manager's documented choice.",
   design="6/C14"),
 "C15": dict(
   technique="property-based testing (proptest): round-trip + differential against an independent canonical bencode writer",
   text="Generated-value search (i64 edge bias, delimiter-rich strings, depth 5) against three oracles: encoder == independent canonical writer, decode(encode(v)) == v incl. concatenations, encode(decode(canonical)) == doc.",
   note="Trusted: reference writer/parser in harness/src/refmodel/bencode.rs, proptest. Dictionary keys unique (BValue::Dict is a HashMap).",
   design="6/C15"),
 "C16": dict(
   technique="exhaustive enumeration over a delimiter alphabet + mutation-based property testing, differential against an independent recursive-descent recogniser; libFuzzer target fz_bdecode with the same oracle (thorough)",
   text="Complete enumeration of all strings over {0,1,2,:,i,l,d,e,-,a} up to length 8 (quick, 111M strings) / 10 (thorough) plus mutated valid documents; rdest must accept exactly the recogniser's language with matching values and never panic. One known finding (unterminated container at EOF, pinned by a baseline test) is recognised by signature and reported as KNOWN-FINDING; everything else is a violation.",
   note="Trusted: the reference recogniser. Numbers outside i64/usize are out of the stated domain (skipped, counted).",
   design="6/C16"),
 "C17": dict(
   technique="property-based testing (proptest): model-based generation of metainfo documents (faithfulness), mutation testing for totality, create/parse round trip on real files; libFuzzer target fz_metainfo (thorough)",
   text="Three generated sub-checks: (faithful) model torrents with edge numeric fields and rotated key order must read back field by field and every accessor must be panic-free for every valid index (overflow checks on); (totality) mutated/arbitrary bytes never panic; (create) create_file on generated files then from_file gives name, length, ceil(len/256KiB) SHA-1s, announce.",
   note="`path` entries are byte strings; numeric fields non-negative in the faithful sub-check.",
   design="6/C17"),
 "C18": dict(
   technique="property-based testing (proptest): metamorphic/decoding oracle on the announce URL (independent form-urlencoded decoder) + real TrackerClient against a loopback HTTP listener",
   text="Random 20-byte info-hashes steered to contain special bytes, alphanumeric ids, announce URLs with/without port, path, existing query or trailing '?'; the URL built by the client and the request line actually received by a loopback listener must keep host/path/existing parameters and carry exactly one info_hash decoding to the hash, plus peer_id, port, left.",
   note="Peer ids alphanumeric (property's domain). reqwest/hyper are part of the system under test on the wire sub-check.",
   design="6/C18"),
 "C19": dict(
   technique="property-based testing (proptest): model-based generation of tracker replies with malformed entries, mutation testing for totality; libFuzzer target fz_tracker_resp (thorough)",
   text="Model replies with 0-30 entries mixing well-formed and malformed peers, extra keys, rotated order, failure reasons, trailing values: peers() must be exactly the well-formed entries in order, failure reasons must be reported as errors, nothing panics. The tracker fault-sequence half (sub faults) runs unmodified Session::run in a real process.",
   note="Ports > 65535 and non-UTF-8 failure reasons not generated (unspecified).",
   design="6/C19"),
}

def main():
    checks = []
    for pid in sorted(CHECKS):
        c = CHECKS[pid]
        checks.append({
            "property_id": pid,
            "quick_cmd": f"./check {pid} quick",
            "thorough_cmd": f"./check {pid} thorough",
            "evidence_file": f"/verif/evidence/{pid}.json",
            "replay_cmd_template": f"./check {pid} --replay {{path}}",
            "engine": "vcheck",
            "level_claimed": {"category": "exploration", "text": c["text"], "design_ref": f"DESIGN.md section {c['design']}"},
            "level_note": c["note"],
            "technique": c["technique"],
        })
    all_ids = [f"C{i:02d}" for i in range(1, 21)]
    na = [{"property_id": i, "reason": "check not built yet in this revision of /verif (planned, see DESIGN.md section 6); claimed once its check exists and is silent on the unchanged tree"} for i in all_ids if i not in CHECKS]
    m = {
        "version": 1,
        "setup_cmd": "cd /verif/harness && CARGO_NET_OFFLINE=true cargo build --bin vcheck",
        "hooks": {
            "guard": "--cfg rdest_verif",
            "enable": "RUSTFLAGS='--cfg rdest_verif --cfg tokio_unstable' via /verif/harness/.cargo/config.toml; the harness depends on rdest by path=/repo, so every ./check rebuilds from /repo's working tree",
            "baseline_off_cmd": "cd /repo && cargo test --workspace --no-fail-fast --offline --tests",
            "source_commits": [l.split()[0] for l in HOOK_COMMITS],
            "add_only": True,
        },
        "engines": [
            {"name": "vcheck", "path": "/verif/harness", "serves_properties": sorted(CHECKS), "kind_free_text": "proptest-driven property checks (16 worker processes), reference models, deterministic in-process swarm runtime on tokio's paused clock, real-process e2e runner"},
        ],
        "checks": checks,
        "not_applicable": na,
        "notes": "Exit codes of every check: 0 held, 1 violation (VIOLATION line + replay file), 2 inconclusive (build failure, watchdog, vacuous generator) - never reported as a violation. Known findings: /verif/known_findings.json.",
    }
    json.dump(m, open("/verif/MANIFEST.json", "w"), indent=1)
    print("wrote MANIFEST.json with", len(checks), "checks")

main()
