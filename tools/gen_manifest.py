#!/usr/bin/env python3
"""Regenerates /verif/MANIFEST.json from the table below (kept in one place so it stays valid)."""
import json, subprocess

HOOK_COMMITS = subprocess.run(
    ["git", "-C", "/repo", "log", "--format=%h %s", "--grep=^verif hooks"],
    capture_output=True, text=True).stdout.strip().splitlines()

CHECKS = {
 "C15": dict(
   technique="property-based testing (proptest): round-trip + differential against an independent canonical bencode writer",
   text="Generated-value search (100k quick / 3M thorough cases, i64 edge bias, delimiter-rich strings, depth 5) against three oracles: encoder == independent canonical writer, decode(encode(v)) == v incl. concatenations, encode(decode(canonical)) == doc. Exploration, not proof: a for-all-values law sampled densely where slips live (formatting of extremes, key ordering on prefix/high-byte keys).",
   note="Trusted: reference writer/parser in harness/src/refmodel/bencode.rs, proptest. Dictionary keys unique (BValue::Dict is a HashMap).",
   design="6/C15"),
 "C16": dict(
   technique="exhaustive enumeration over a delimiter alphabet + mutation-based property testing, differential against an independent recursive-descent recogniser; libFuzzer target fz_bdecode with the same oracle (thorough)",
   text="Complete enumeration of all strings over {0,1,2,:,i,l,d,e,-,a} up to length 8 (quick, 111M strings) / 10 (thorough) plus 100k/3M mutated valid documents; rdest must accept exactly the recogniser's language with matching values and never panic. One known finding (unterminated container at EOF, pinned by a baseline test) is recognised by signature and reported as KNOWN-FINDING; everything else is a violation.",
   note="Trusted: the reference recogniser. Numbers outside i64/usize are out of the stated domain (skipped, counted).",
   design="6/C16"),
}

def main():
    checks = []
    for pid in sorted(CHECKS):
        c = CHECKS[pid]
        checks.append({
            "property_id": pid,
            "quick_cmd": f"./check {pid} quick",
            "thorough_cmd": f"./check {pid} thorough",
            "evidence_file": f"/verif/evidence/{pid}.json",
            "replay_cmd_template": f"./check {pid} --replay {{path}}",
            "engine": "vcheck",
            "level_claimed": {"category": "exploration", "text": c["text"], "design_ref": f"DESIGN.md section {c['design']}"},
            "level_note": c["note"],
            "technique": c["technique"],
        })
    all_ids = [f"C{i:02d}" for i in range(1, 21)]
    na = [{"property_id": i, "reason": "check not built yet in this revision of /verif (planned, see DESIGN.md section 6); claimed once its check exists and is silent on the unchanged tree"} for i in all_ids if i not in CHECKS]
    m = {
        "version": 1,
        "setup_cmd": "cd /verif/harness && CARGO_NET_OFFLINE=true cargo build --bin vcheck",
        "hooks": {
            "guard": "--cfg rdest_verif",
            "enable": "RUSTFLAGS='--cfg rdest_verif --cfg tokio_unstable' via /verif/harness/.cargo/config.toml; the harness depends on rdest by path=/repo, so every ./check rebuilds from /repo's working tree",
            "baseline_off_cmd": "cd /repo && cargo test --workspace --no-fail-fast --offline --tests",
            "source_commits": [l.split()[0] for l in HOOK_COMMITS],
            "add_only": True,
        },
        "engines": [
            {"name": "vcheck", "path": "/verif/harness", "serves_properties": sorted(CHECKS), "kind_free_text": "proptest-driven property checks (16 worker processes), reference models, deterministic in-process swarm runtime on tokio's paused clock, real-process e2e runner"},
        ],
        "checks": checks,
        "not_applicable": na,
        "notes": "Exit codes of every check: 0 held, 1 violation (VIOLATION line + replay file), 2 inconclusive (build failure, watchdog, vacuous generator) - never reported as a violation. Known findings: /verif/known_findings.json.",
    }
    json.dump(m, open("/verif/MANIFEST.json", "w"), indent=1)
    print("wrote MANIFEST.json with", len(checks), "checks")

main()
