#!/bin/bash
# run every quick (or thorough) check once; print verdict lines and timing
tier=${1:-quick}
for i in $(seq -w 1 20); do
  id=C$i
  s=$(date +%s.%N)
  out=$(./check $id $tier 2>&1); rc=$?
  e=$(date +%s.%N)
  printf "%s rc=%d %.1fs %s\n" $id $rc $(echo "$e - $s" | bc) "$(echo "$out" | grep -E "^(OK|VIOLATION|VACUOUS|INCONCLUSIVE|KNOWN|BUILD)" | head -3 | cut -c1-160 | tr '\n' '|')"
done
