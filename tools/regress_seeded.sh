#!/bin/bash
# tools/regress_seeded.sh [names...] : re-run every stored seeded change against the current checks (quick tier);
# a change counts as caught when the check of its own property, or one named in its meta.json caught_by, exits 1.
cd /verif
names=${@:-$(ls seeded)}
miss=0
for n in $names; do
  id=${n%%-*}
  ids="$id $(python3 -c "
import json,re,sys
m=json.load(open('/verif/seeded/$n/meta.json'))
c=m.get('confirmed_by_verif',{}).get('caught_by','')
print(' '.join(sorted(set(re.findall(r'C\d\d',c))-{'$id'})))")"
  caught=""
  for i in $ids; do
    out=$(SKIP_BASELINE=1 tools/seedtest.sh /verif/seeded/$n/patch.diff $i 2>&1 | tail -1)
    case "$out" in *"rc=1 "*) caught=$i; break;; esac
  done
  if [ -n "$caught" ]; then echo "$n caught-by $caught"; else echo "$n MISSED ($out)"; miss=$((miss+1)); fi
done
echo "missed=$miss"
