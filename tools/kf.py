#!/usr/bin/env python3
"""kf.py fixed <prop> <signature> <commit> <what>   |   kf.py known <prop> <signature> <sub> <witness-json-file|-> <what>"""
import json, sys
p = '/verif/known_findings.json'
d = json.load(open(p))
kind = sys.argv[1]
if kind == 'fixed':
    _, _, prop, sig, commit, what = sys.argv
    d['findings'].append({"status": "fixed", "property": prop, "signature": sig, "commit": commit,
                          "what": f"fixed: property={prop} {commit} {what}"})
elif kind == 'known':
    _, _, prop, sig, sub, wfile, what = sys.argv
    e = {"status": "known", "property": prop, "signature": sig, "sub": sub, "what": what}
    if wfile != '-':
        w = json.load(open(wfile))
        e["witness"] = w.get("case", w)
    d['findings'].append(e)
json.dump(d, open(p, 'w'), indent=2)
print("ok", len(d['findings']))
