#!/usr/bin/env python3
"""seed_meta.py <name> <status> <caught_by> [note]  -- record my own confirmation in /verif/seeded/<name>/meta.json"""
import json, sys
name, status, caught = sys.argv[1], sys.argv[2], sys.argv[3]
note = sys.argv[4] if len(sys.argv) > 4 else ""
p = f"/verif/seeded/{name}/meta.json"
m = json.load(open(p))
m["confirmed_by_verif"] = {
    "what_i_ran": [
        "tools/verify_seed.sh <scratch worktree> %s : demo passes on clean HEAD, fails with patch.diff applied, baseline suite 71/0 with the patch" % name,
        "tools/seedtest.sh seeded/%s/patch.diff <ID> : git -C /repo apply, ./check <ID> quick, git -C /repo checkout -- ." % name,
    ],
    "status": status,
    "caught_by": caught,
    "note": note,
}
json.dump(m, open(p, "w"), indent=1)
print("ok", name)
