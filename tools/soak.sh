#!/bin/bash
# tools/soak.sh <first seed> <last seed> : every quick check once per seed on the unchanged tree; any rc != 0 is printed
for s in $(seq $1 $2); do
  for i in $(seq -w 1 20); do
    out=$(VERIF_SEED=$s ./check C$i quick 2>&1); rc=$?
    if [ $rc -ne 0 ]; then echo "SEED $s C$i rc=$rc :: $(echo "$out" | grep -E "^(detail|VIOLATION|VACUOUS|INCONCLUSIVE|BUILD)" | head -3 | cut -c1-300 | tr '\n' '|')"; fi
  done
  echo "seed $s done"
done
