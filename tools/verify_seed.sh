#!/bin/bash
# tools/verify_seed.sh <worktree> <name>  : confirm a seeded change (demo passes clean, fails patched, suite green), then store it under /verif/seeded/<name>/
wt=$1; name=$2
cd $wt || exit 2
id=$(basename $wt | sed 's/wt-//')
export CARGO_NET_OFFLINE=true CARGO_TARGET_DIR=${VS_TARGET:-/tmp/agents/target-$(echo $id | cut -c1-3)}
git checkout -q -- src 2>/dev/null; git clean -fdq tests 2>/dev/null
res_clean=NA; res_patched=NA
if ls OUT/demo/*.rs >/dev/null 2>&1 && [ ! -f OUT/demo/Cargo.toml ]; then
  cp OUT/demo/*.rs tests/
  tests=$(ls OUT/demo/*.rs | xargs -n1 basename | sed 's/\.rs$//')
  run() { ok=1; for t in $tests; do RUSTFLAGS='--cfg rdest_verif' cargo test --offline --test $t >/tmp/agents/demo-$id.log 2>&1 || ok=0; done; echo $ok; }
  res_clean=$(run)
  git apply OUT/patch.diff || { echo "patch does not apply"; exit 2; }
  res_patched=$(run)
  rm -f $(for t in $tests; do echo tests/$t.rs; done)
elif [ -f OUT/demo/Cargo.toml ]; then
  (cd OUT/demo && RUSTFLAGS='--cfg rdest_verif' CARGO_TARGET_DIR=$CARGO_TARGET_DIR/demo cargo test --offline >/tmp/agents/demo-$id.log 2>&1) && res_clean=1 || res_clean=0
  git apply OUT/patch.diff || { echo "patch does not apply"; exit 2; }
  (cd OUT/demo && RUSTFLAGS='--cfg rdest_verif' CARGO_TARGET_DIR=$CARGO_TARGET_DIR/demo cargo test --offline >/tmp/agents/demo-$id.log 2>&1) && res_patched=1 || res_patched=0
else
  git apply OUT/patch.diff || { echo "patch does not apply"; exit 2; }
fi
suite=$(cargo test --offline --tests 2>&1 | grep -E "^test result" | awk '{p+=$4; f+=$6} END {print p "/" f}')
git checkout -q -- src; git clean -fdq tests 2>/dev/null
echo "$name: demo clean-pass=$res_clean patched-pass=$res_patched suite(pass/fail)=$suite"
if [ "$res_clean" = "1" ] && [ "$res_patched" = "0" ] && [ "$suite" = "71/0" ]; then
  mkdir -p /verif/seeded/$name && cp -r OUT/patch.diff OUT/demo OUT/meta.json /verif/seeded/$name/ && rm -rf /verif/seeded/$name/demo/target /verif/seeded/$name/demo/Cargo.lock
  echo "stored /verif/seeded/$name"
else
  echo "NOT stored"
fi
