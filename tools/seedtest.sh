#!/bin/bash
# tools/seedtest.sh <patch.diff> <ID> [more IDs...]  : apply a seeded change to /repo, run the quick checks, undo.
patch=$1; shift
cd /repo && git diff --quiet || { echo "repo dirty"; exit 2; }
git -C /repo apply "$patch" || { echo "patch does not apply"; exit 2; }
trap 'git -C /repo checkout -- . ; git -C /repo clean -fdq tests 2>/dev/null; (cd /verif/harness && cargo build --bin vcheck >/dev/null 2>&1)' EXIT
if [ -z "$SKIP_BASELINE" ]; then
  (cd /repo && cargo test --offline --tests 2>&1 | grep -E "^test result" | awk '{p+=$4; f+=$6} END {print "baseline passed=" p " failed=" f}')
fi
cd /verif
for id in "$@"; do
  s=$(date +%s)
  out=$(VERIF_SEED=${VERIF_SEED:-3} ./check $id ${TIER:-quick} 2>&1); rc=$?
  e=$(date +%s)
  echo "$id rc=$rc $((e-s))s :: $(echo "$out" | grep -E "^(detail|OK|VIOLATION|VACUOUS|INCONCLUSIVE|BUILD)" | head -4 | cut -c1-400 | tr '\n' '|')"
done
