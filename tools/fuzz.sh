#!/bin/bash
# tools/fuzz.sh <ID> <target> <total runs> <replay sub>   : coverage-guided campaign with the oracle inside the target (thorough tier)
# exit 0 no crash, 1 violation (VIOLATION line printed), 2 could not run
id=$1; tgt=$2; runs=$3; sub=${4:-raw}
seed=${VERIF_SEED:-0}; [ "$seed" = "0" ] && seed=1
cd /verif/fuzz || exit 2
export CARGO_NET_OFFLINE=true
export RUSTFLAGS="--cfg rdest_verif --cfg tokio_unstable --cap-lints allow"
if ! cargo +nightly fuzz build --sanitizer none --fuzz-dir /verif/fuzz $tgt >/verif/fuzz/build-$tgt.log 2>&1; then
  echo "FUZZ-BUILD-FAILED: see /verif/fuzz/build-$tgt.log"; exit 2
fi
bin=/verif/fuzz/target/x86_64-unknown-linux-gnu/release/$tgt
tag=$tgt; maxlen=2048
if [ "$tgt" = "fz_hist" ]; then
  # one binary for all session-level history checks; the property selects decoder and oracle
  export FZ_PROP=$id; tag=$tgt-$id; maxlen=400
fi
work=/verif/fuzz/corpus-work/$tag; art=/verif/fuzz/artifacts/$tag
rm -rf $work $art; mkdir -p $work $art
cp /verif/corpus/fuzz/$tag/* $work/ 2>/dev/null
jobs=8
per=$((runs / jobs))
pids=()
for j in $(seq 1 $jobs); do
  mkdir -p $work/j$j; cp $work/* $work/j$j/ 2>/dev/null
  ( cd /verif && $bin $work/j$j -runs=$per -seed=$((seed * 100 + j)) -len_control=0 -max_len=$maxlen -artifact_prefix=$art/ -print_final_stats=1 >$art/log-$j.txt 2>&1 ) &
  pids+=($!)
done
fail=0
for p in "${pids[@]}"; do wait $p || fail=1; done
execs=$(grep -h "stat::number_of_executed_units" $art/log-*.txt | awk '{s+=$2} END {print s+0}')
echo "FUZZ target=$tag executions=$execs jobs=$jobs"
crash=$(ls $art | grep -E "^(crash|oom|timeout)-" | head -1)
if [ -n "$crash" ]; then
  mkdir -p /verif/replays
  out=/verif/replays/$id-fuzz-$tgt-$seed.json
  rf=$(grep -h "^REPLAY-FILE " $art/log-*.txt | head -1 | cut -d' ' -f2)
  if [ -n "$rf" ] && [ -f "$rf" ]; then
    grep -h "ORACLE-VIOLATION" $art/log-*.txt | head -2 | cut -c1-600
    echo "VIOLATION property=$id replay=$rf"
    exit 1
  fi
  python3 - "$art/$crash" "$id" "$sub" "$out" <<'PY'
import sys, json
data = open(sys.argv[1], 'rb').read()
json.dump({"property": sys.argv[2], "sub": sys.argv[3], "signature": "fuzz-crash", "detail": "libFuzzer artefact " + sys.argv[1], "case": {"bytes": list(data)}}, open(sys.argv[4], 'w'))
PY
  grep -h "ORACLE-VIOLATION" $art/log-*.txt | head -2 | cut -c1-600
  echo "VIOLATION property=$id replay=$out"
  exit 1
fi
# record in the evidence file
rm -rf /verif/work/fuzz-$id-* 2>/dev/null
python3 - "$id" "$tag" "$execs" <<'PY'
import sys, json
p = f"/verif/evidence/{sys.argv[1]}.json"
try:
    e = json.load(open(p))
    e["coverage"].setdefault("fuzz", []).append({"target": sys.argv[2], "executions": int(sys.argv[3]), "engine": "libFuzzer (cargo-fuzz, sanitizer none, oracle inside target)", "crashes": 0})
    json.dump(e, open(p, "w"), indent=1)
except Exception as ex:
    print("could not update evidence:", ex)
PY
exit 0
